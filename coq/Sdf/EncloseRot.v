(* C01 over the reals, part 6: RotateCopy2D/3D (the polar mapping preserves the radius) and
   RotateUnion2D/3D (induction over the copy count; the box loop and the evaluation loop run in
   tandem: copy i is the image of the operand under step^i). *)
From Coq Require Import Reals Lra Lia List Bool ZArith Psatz.
From Sdfx Require Import Num.Ops Num.RInst Geo.Vec Geo.Box Geo.BoxR Geo.MinMaxR Geo.NormR Geo.Mat
  Sdf.Union2 Sdf.Shape Sdf.ShapeR Sdf.EncloseR Sdf.EncloseComb Sdf.EncloseXform Sdf.EncloseExtr Sdf.EncloseRev.
Import ListNotations.
Open Scope R_scope.

(* ------------------------------------------------------------ RotateCopy *)
Lemma if_max (a b : R) : (if Rltb a b then b else a) = Rmax a b.
Proof. unfold Rmax. rcmp1; destruct (Rle_dec a b); lra. Qed.

Lemma polar_len (r t : R) : 0 <= r -> len2 (mkV2 (r * cos t) (r * sin t)) = r.
Proof.
  intros Hr. unfold len2; cbn. pose proof (sin2_cos2 t) as S. unfold Rsqr in S.
  replace (r * cos t * (r * cos t) + r * sin t * (r * sin t)) with (r * r * (sin t * sin t + cos t * cos t)) by ring.
  rewrite S, Rmult_1_r. apply sqrt_square, Hr.
Qed.

Lemma rotatecopy2_enc s n o : @k_rotatecopy2 ROps s n = Some o -> enc2 s -> enc2 o.
Proof.
  intros H [_ Hs]. unfold k_rotatecopy2 in H. kinv' H. cbv zeta.
  match goal with |- context [fold_left ?F ?l ?a] => assert (E : fold_left F l a = box2_max_radius (bb2 s)) end.
  { unfold box2_max_radius, box2_vertices; cbn [fold_left]. cbv zeta. change (oltb ROps) with Rltb.
    rewrite !if_max. reflexivity. }
  rewrite E. pose proof (max_radius_nonneg (bb2 s)) as Hl. remember (box2_max_radius (bb2 s)) as l eqn:El.
  split; cbn [bb2 ev2]; [unfold ordered2; cbn; lra|].
  intros p Hp. apply Hs, max_radius_bound in Hp. rewrite <- El in Hp.
  change (omul ROps) with Rmult in Hp. change (ocos ROps) with cos in Hp. change (osin ROps) with sin in Hp.
  rewrite polar_len in Hp by apply len2_nonneg.
  pose proof (abs_le_len2_x p) as X. pose proof (abs_le_len2_y p) as Y. change (v2len p) with (len2 p) in Hp.
  assert (Ax : Rabs (vx p) <= l) by lra. assert (Ay : Rabs (vy p) <= l) by lra. apply Rabs_le_inv in Ax, Ay.
  unfold in_box2; cbn. lra.
Qed.

Lemma fold_rmax3_ge (l : list RV3) (a : R) :
  let F := fun (rmax : R) (v : RV3) => let l := @v2len ROps (mkV2 (wx v) (wy v)) in if oltb ROps rmax l then l else rmax in
  a <= fold_left F l a /\ forall v, In v l -> len2 (mkV2 (wx v) (wy v)) <= fold_left F l a.
Proof.
  intros F. revert a; induction l as [|w l IH]; intros a; cbn [fold_left]; [split; [lra | intros v []]|].
  assert (EF : F a w = Rmax a (len2 (mkV2 (wx w) (wy w))))
    by (unfold F; cbv zeta; change (oltb ROps) with Rltb; apply if_max).
  destruct (IH (F a w)) as [A B]. set (a' := F a w) in *.
  pose proof (Rmax_l a (len2 (mkV2 (wx w) (wy w)))). pose proof (Rmax_r a (len2 (mkV2 (wx w) (wy w)))).
  split; [lra|]. intros v [<-|Hv]; [lra | apply B, Hv].
Qed.

Lemma rotatecopy3_enc s n o : @k_rotatecopy3 ROps s n = Some o -> enc3 s -> enc3 o.
Proof.
  intros H [(_ & _ & Hz) Hs]. unfold k_rotatecopy3 in H. kinv' H. cbv zeta.
  match goal with |- context [fold_left ?F ?l ?a] => destruct (fold_rmax3_ge l a) as [Hl Hv]; cbv zeta in Hl, Hv;
    change (fold_left _ l a) with (fold_left F l a) in Hl, Hv; set (rm := fold_left F l a) in * end.
  change (o0 ROps) with 0 in Hl. clearbody rm.
  split; cbn [bb3 ev3]; [unfold ordered3; cbn; lra|].
  intros p Hp. apply Hs in Hp. destruct Hp as (Ix & Iy & Iz). cbn [wx wy wz vx vy] in Ix, Iy, Iz.
  change (omul ROps) with Rmult in *. change (ocos ROps) with cos in *. change (osin ROps) with sin in *.
  set (r := v2len (mkV2 (wx p) (wy p))) in *. set (t := sawtooth _ _) in *.
  assert (Hr : 0 <= r) by apply len2_nonneg.
  assert (Hq : r <= rm).
  { rewrite <- (polar_len r t Hr).
    assert (M : forall cx cy : R, r * cos t * (r * cos t) <= cx * cx -> r * sin t * (r * sin t) <= cy * cy ->
                len2 (mkV2 (r * cos t) (r * sin t)) <= len2 (mkV2 cx cy))
      by (intros cx cy A B; unfold len2; cbn [vx vy]; apply sqrt_le_1_alt; lra).
    destruct (sq_le_ends _ _ _ Ix) as [Ax|Ax]; destruct (sq_le_ends _ _ _ Iy) as [Ay|Ay];
      (eapply Rle_trans; [apply (M _ _ Ax Ay)|]);
      [ apply (Hv (b3min (bb3 s))) | apply (Hv (mkV3 (wx (b3min (bb3 s))) (wy (b3max (bb3 s))) (wz (b3min (bb3 s)))))
      | apply (Hv (mkV3 (wx (b3max (bb3 s))) (wy (b3min (bb3 s))) (wz (b3min (bb3 s))))) | apply (Hv (b3max (bb3 s))) ];
      unfold box3_vertices; cbn; auto 10. }
  pose proof (abs_le_len2_x (mkV2 (wx p) (wy p))) as X. pose proof (abs_le_len2_y (mkV2 (wx p) (wy p))) as Y.
  cbn [vx vy] in X, Y. change (len2 (mkV2 (wx p) (wy p))) with r in X, Y.
  assert (Ax : Rabs (wx p) <= rm) by lra. assert (Ay : Rabs (wy p) <= rm) by lra. apply Rabs_le_inv in Ax, Ay.
  unfold in_box3; cbn. lra.
Qed.

(* ------------------------------------------------------------ affine images of boxes *)
Definition affine_fun2 (F : RV2 -> RV2) : Prop :=
  exists a0 a1 a2 a3 a4 a5 : R, forall q, F q = mkV2 (a0 * vx q + a1 * vy q + a2) (a3 * vx q + a4 * vy q + a5).
Definition affine_fun3 (F : RV3 -> RV3) : Prop :=
  exists a0 a1 a2 a3 a4 a5 a6 a7 a8 a9 a10 a11 : R, forall q,
    F q = mkV3 (a0 * wx q + a1 * wy q + a2 * wz q + a3) (a4 * wx q + a5 * wy q + a6 * wz q + a7)
               (a8 * wx q + a9 * wy q + a10 * wz q + a11).

(* a linear form on a box is minimal at a vertex *)
Lemma lin2_min (b : RBox2) q (a0 a1 : R) : in_box2 b q ->
  exists c, In c (box2_vertices b) /\ a0 * vx c + a1 * vy c <= a0 * vx q + a1 * vy q.
Proof.
  intros [Hx Hy]. unfold box2_vertices.
  destruct (Rle_dec 0 a0), (Rle_dec 0 a1);
    [ exists (b2min b) | exists (mkV2 (vx (b2min b)) (vy (b2max b)))
    | exists (mkV2 (vx (b2max b)) (vy (b2min b))) | exists (b2max b) ];
    (split; [cbn; auto | cbn [vx vy]; nra]).
Qed.
Lemma lin3_min (b : RBox3) q (a0 a1 a2 : R) : in_box3 b q ->
  exists c, In c (box3_vertices b) /\ a0 * wx c + a1 * wy c + a2 * wz c <= a0 * wx q + a1 * wy q + a2 * wz q.
Proof.
  intros (Hx & Hy & Hz). unfold box3_vertices. cbv zeta.
  destruct (Rle_dec 0 a0), (Rle_dec 0 a1), (Rle_dec 0 a2);
    [ exists (b3min b) | exists (mkV3 (wx (b3min b)) (wy (b3min b)) (wz (b3max b)))
    | exists (mkV3 (wx (b3min b)) (wy (b3max b)) (wz (b3min b))) | exists (mkV3 (wx (b3min b)) (wy (b3max b)) (wz (b3max b)))
    | exists (mkV3 (wx (b3max b)) (wy (b3min b)) (wz (b3min b))) | exists (mkV3 (wx (b3max b)) (wy (b3min b)) (wz (b3max b)))
    | exists (mkV3 (wx (b3max b)) (wy (b3max b)) (wz (b3min b))) | exists (b3max b) ];
    (split; [cbn; auto 10 | cbn [wx wy wz]; nra]).
Qed.

Lemma affine_hull2 F b q : affine_fun2 F -> in_box2 b q ->
  in_box2 (mkBox2 (@v2set_min ROps (map F (box2_vertices b))) (@v2set_max ROps (map F (box2_vertices b)))) (F q).
Proof.
  intros (a0 & a1 & a2 & a3 & a4 & a5 & HF) Hin. unfold in_box2; cbn [b2min b2max].
  destruct (lin2_min b q a0 a1 Hin) as (c1 & I1 & L1). destruct (lin2_min b q (- a0) (- a1) Hin) as (c2 & I2 & L2).
  destruct (lin2_min b q a3 a4 Hin) as (c3 & I3 & L3). destruct (lin2_min b q (- a3) (- a4) Hin) as (c4 & I4 & L4).
  destruct (set_min_le _ _ (in_map F _ _ I1)) as [A1 _]. destruct (set_max_ge _ _ (in_map F _ _ I2)) as [A2 _].
  destruct (set_min_le _ _ (in_map F _ _ I3)) as [_ A3]. destruct (set_max_ge _ _ (in_map F _ _ I4)) as [_ A4].
  rewrite HF in A1, A2, A3, A4. rewrite (HF q). cbn [vx vy] in *. lra.
Qed.

Lemma mulpos33_affine (m : RM) : affine_fun2 (@m33_mulposition ROps m).
Proof.
  exists (nth 0 m 0), (nth 1 m 0), (nth 2 m 0), (nth 3 m 0), (nth 4 m 0), (nth 5 m 0). intros q. reflexivity.
Qed.
Lemma affine_comp2 F G : affine_fun2 F -> affine_fun2 G -> affine_fun2 (fun q => G (F q)).
Proof.
  intros (a0 & a1 & a2 & a3 & a4 & a5 & HF) (b0 & b1 & b2 & b3 & b4 & b5 & HG).
  exists (b0 * a0 + b1 * a3), (b0 * a1 + b1 * a4), (b0 * a2 + b1 * a5 + b2),
         (b3 * a0 + b4 * a3), (b3 * a1 + b4 * a4), (b3 * a2 + b4 * a5 + b5).
  intros q. rewrite HF, HG. cbn [vx vy]. f_equal; ring.
Qed.
Lemma affine_id2 : affine_fun2 (fun q => q).
Proof. exists 1, 0, 0, 0, 1, 0. intros [x y]; cbn. f_equal; rring. Qed.

(* ------------------------------------------------------------ products and inverses of affine matrices *)
Lemma mul33_affine (a b : RM) : affine33 a -> affine33 b -> affine33 (@m33_mul ROps a b).
Proof.
  intros (A6 & A7 & A8) (B6 & B7 & B8). unfold affine33, m33_mul; cbn [nth].
  rewrite A6, A7, A8, B6, B7, B8. ropen. repeat split; ring.
Qed.
Lemma mulpos_mul33 (a b : RM) p : affine33 b ->
  @m33_mulposition ROps (@m33_mul ROps a b) p = @m33_mulposition ROps a (@m33_mulposition ROps b p).
Proof.
  intros (B6 & B7 & B8). unfold m33_mulposition, m33_mul; cbn [nth vx vy]. rewrite B6, B7, B8. ropen. f_equal; ring.
Qed.
Lemma inverse33_affine (m : RM) : affine33 m -> @m33_determinant ROps m <> 0 -> affine33 (@m33_inverse ROps m).
Proof.
  intros (H6 & H7 & H8) Hd. unfold affine33, m33_inverse; cbn [nth].
  unfold m33_determinant in *. rewrite H6, H7, H8 in *. gen33 m. intros a5 a4 a3 a2 a1 a0 Hd. ropen.
  repeat split; try ring. field. intros E; apply Hd; lra.
Qed.
Lemma identity33_affine : affine33 (@mk_identity2d ROps).
Proof. unfold affine33; cbn. auto. Qed.
Lemma identity33_mulpos p : @m33_mulposition ROps (@mk_identity2d ROps) p = p.
Proof. destruct p as [x y]. unfold m33_mulposition; cbn. f_equal; ring. Qed.

(* ------------------------------------------------------------ RotateUnion2D *)
Lemma rotunion_box2_mono n (step : RM) : forall V bmin bmax,
  let r := @rotunion_box2 ROps n step V bmin bmax in
  vx (fst r) <= vx bmin /\ vy (fst r) <= vy bmin /\ vx bmax <= vx (snd r) /\ vy bmax <= vy (snd r).
Proof.
  induction n as [|n IH]; intros V bmin bmax; cbn [rotunion_box2 fst snd]; [lra|].
  specialize (IH (map (m33_mulposition step) V) (v2min bmin (v2set_min V)) (v2max bmax (v2set_max V))).
  cbv zeta in IH. cbn [v2min v2max vx vy] in IH. destruct IH as (A & B & C & D).
  pose proof (Rmin_l (vx bmin) (vx (v2set_min V))). pose proof (Rmin_l (vy bmin) (vy (v2set_min V))).
  pose proof (Rmax_l (vx bmax) (vx (v2set_max V))). pose proof (Rmax_l (vy bmax) (vy (v2set_max V))).
  ropen. lra.
Qed.

Section RotUnion2.
  Variable f : RV2 -> R.
  Variable bb : RBox2.
  Variables step sstep : RM.
  Hypothesis Hss : affine33 sstep.
  Hypothesis Hinv : forall p, @m33_mulposition ROps step (@m33_mulposition ROps sstep p) = p.
  Hypothesis Hf : forall q, f q < 0 -> in_box2 bb q.

  Lemma rotunion2_tandem n : forall (rot : RM) F V bmin bmax d p,
    affine_fun2 F -> (forall x, F (@m33_mulposition ROps rot x) = x) -> V = map F (box2_vertices bb) ->
    @rotunion_loop2 ROps MinDef f n sstep rot p d < 0 ->
    d < 0 \/ in_box2 (mkBox2 (fst (@rotunion_box2 ROps n step V bmin bmax)) (snd (@rotunion_box2 ROps n step V bmin bmax))) p.
  Proof.
    induction n as [|n IH]; intros rot F V bmin bmax d p HF HFr HV Hlt; cbn [rotunion_loop2 rotunion_box2] in *; [now left|].
    cbv zeta in Hlt. cbn [min_apply] in Hlt. change (omin ROps) with Rmin in Hlt.
    set (F' := fun q => @m33_mulposition ROps step (F q)).
    destruct (IH (m33_mul rot sstep) F' (map (m33_mulposition step) V) (v2min bmin (v2set_min V)) (v2max bmax (v2set_max V))
                 (Rmin d (f (m33_mulposition rot p))) p) as [Hd|Hin]; [| | | exact Hlt | | now right].
    - exact (affine_comp2 F (@m33_mulposition ROps step) HF (mulpos33_affine step)).
    - intros x. unfold F'. rewrite mulpos_mul33 by exact Hss. rewrite HFr. apply Hinv.
    - rewrite HV, map_map. reflexivity.
    - unfold Rmin in Hd. destruct (Rle_dec _ _); [now left | right].
      pose proof (affine_hull2 F bb _ HF (Hf _ Hd)) as Hh. rewrite HFr, <- HV in Hh.
      pose proof (rotunion_box2_mono n step (map (m33_mulposition step) V) (v2min bmin (v2set_min V)) (v2max bmax (v2set_max V))) as M.
      cbv zeta in M. destruct M as (A & B & C & D). destruct Hh as [Hx Hy]. cbn [b2min b2max v2min v2max vx vy] in *.
      pose proof (Rmin_r (vx bmin) (vx (v2set_min V))). pose proof (Rmin_r (vy bmin) (vy (v2set_min V))).
      pose proof (Rmax_r (vx bmax) (vx (v2set_max V))). pose proof (Rmax_r (vy bmax) (vy (v2set_max V))).
      ropen. unfold in_box2; cbn [b2min b2max]. lra.
  Qed.
End RotUnion2.

Theorem rotateunion2_enc s num (step : RM) o : affine33 step -> @m33_determinant ROps step <> 0 ->
  @k_rotateunion2 ROps MinDef s num step = Some o -> enc2 s -> enc2 o.
Proof.
  intros Ha Hd H [_ Hs]. unfold k_rotateunion2 in H. kchecks H. cbv zeta in H.
  set (v := box2_vertices (bb2 s)) in *. set (v0 := hd v2zero v) in *.
  pose proof (rotunion_box2_mono (Z.to_nat num) step v v0 v0) as M. cbv zeta in M.
  pose proof (rotunion2_tandem (ev2 s) (bb2 s) step (m33_inverse step) (inverse33_affine _ Ha Hd)
                (fun p => inverse33_correct_r step p Ha Hd) Hs (Z.to_nat num) mk_identity2d (fun q => q) v v0 v0) as T.
  destruct (rotunion_box2 (Z.to_nat num) step v v0 v0) as [bmin bmax]. cbn [fst snd] in *.
  apply some_inj in H. rewrite <- H. destruct M as (A & B & C & D).
  split; cbn [bb2 ev2]; [unfold ordered2; cbn [b2min b2max]; lra|].
  intros p Hp. destruct (T (omaxf ROps) p affine_id2 identity33_mulpos) as [Hm|Hin]; [|exact Hp | | exact Hin].
  - unfold v. rewrite map_id. reflexivity.
  - pose proof sentinel_nonneg. lra.
Qed.

(* ------------------------------------------------------------ the same in 3D *)
Lemma fold_v3min_le (l : list RV3) a :
  (wx (fold_left v3min l a) <= wx a /\ wy (fold_left v3min l a) <= wy a /\ wz (fold_left v3min l a) <= wz a) /\
  forall v, In v l -> wx (fold_left v3min l a) <= wx v /\ wy (fold_left v3min l a) <= wy v /\ wz (fold_left v3min l a) <= wz v.
Proof.
  revert a; induction l as [|w l IH]; intros a; cbn [fold_left]; [split; [lra | intros v []]|].
  destruct (IH (v3min a w)) as [(A1 & A2 & A3) B]. cbn in A1, A2, A3.
  pose proof (Rmin_l (wx a) (wx w)). pose proof (Rmin_r (wx a) (wx w)).
  pose proof (Rmin_l (wy a) (wy w)). pose proof (Rmin_r (wy a) (wy w)).
  pose proof (Rmin_l (wz a) (wz w)). pose proof (Rmin_r (wz a) (wz w)).
  split; [lra|]. intros v [<-|Hv]; [lra | apply B, Hv].
Qed.
Lemma fold_v3max_ge (l : list RV3) a :
  (wx a <= wx (fold_left v3max l a) /\ wy a <= wy (fold_left v3max l a) /\ wz a <= wz (fold_left v3max l a)) /\
  forall v, In v l -> wx v <= wx (fold_left v3max l a) /\ wy v <= wy (fold_left v3max l a) /\ wz v <= wz (fold_left v3max l a).
Proof.
  revert a; induction l as [|w l IH]; intros a; cbn [fold_left]; [split; [lra | intros v []]|].
  destruct (IH (v3max a w)) as [(A1 & A2 & A3) B]. cbn in A1, A2, A3.
  pose proof (Rmax_l (wx a) (wx w)). pose proof (Rmax_r (wx a) (wx w)).
  pose proof (Rmax_l (wy a) (wy w)). pose proof (Rmax_r (wy a) (wy w)).
  pose proof (Rmax_l (wz a) (wz w)). pose proof (Rmax_r (wz a) (wz w)).
  split; [lra|]. intros v [<-|Hv]; [lra | apply B, Hv].
Qed.
Lemma set_min_le3 (l : list RV3) v : In v l ->
  wx (@v3set_min ROps l) <= wx v /\ wy (@v3set_min ROps l) <= wy v /\ wz (@v3set_min ROps l) <= wz v.
Proof. intros H. unfold v3set_min. apply fold_v3min_le, H. Qed.
Lemma set_max_ge3 (l : list RV3) v : In v l ->
  wx v <= wx (@v3set_max ROps l) /\ wy v <= wy (@v3set_max ROps l) /\ wz v <= wz (@v3set_max ROps l).
Proof. intros H. unfold v3set_max. apply fold_v3max_ge, H. Qed.

Lemma affine_hull3 F b q : affine_fun3 F -> in_box3 b q ->
  in_box3 (mkBox3 (@v3set_min ROps (map F (box3_vertices b))) (@v3set_max ROps (map F (box3_vertices b)))) (F q).
Proof.
  intros (a0 & a1 & a2 & a3 & a4 & a5 & a6 & a7 & a8 & a9 & a10 & a11 & HF) Hin. unfold in_box3; cbn [b3min b3max].
  destruct (lin3_min b q a0 a1 a2 Hin) as (c1 & I1 & L1). destruct (lin3_min b q (- a0) (- a1) (- a2) Hin) as (c2 & I2 & L2).
  destruct (lin3_min b q a4 a5 a6 Hin) as (c3 & I3 & L3). destruct (lin3_min b q (- a4) (- a5) (- a6) Hin) as (c4 & I4 & L4).
  destruct (lin3_min b q a8 a9 a10 Hin) as (c5 & I5 & L5). destruct (lin3_min b q (- a8) (- a9) (- a10) Hin) as (c6 & I6 & L6).
  destruct (set_min_le3 _ _ (in_map F _ _ I1)) as (A1 & _ & _). destruct (set_max_ge3 _ _ (in_map F _ _ I2)) as (A2 & _ & _).
  destruct (set_min_le3 _ _ (in_map F _ _ I3)) as (_ & A3 & _). destruct (set_max_ge3 _ _ (in_map F _ _ I4)) as (_ & A4 & _).
  destruct (set_min_le3 _ _ (in_map F _ _ I5)) as (_ & _ & A5). destruct (set_max_ge3 _ _ (in_map F _ _ I6)) as (_ & _ & A6).
  rewrite HF in A1, A2, A3, A4, A5, A6. rewrite (HF q). cbn [wx wy wz] in *. lra.
Qed.

Lemma mulpos44_affine (m : RM) : affine_fun3 (@m44_mulposition ROps m).
Proof.
  exists (nth 0 m 0), (nth 1 m 0), (nth 2 m 0), (nth 3 m 0), (nth 4 m 0), (nth 5 m 0),
         (nth 6 m 0), (nth 7 m 0), (nth 8 m 0), (nth 9 m 0), (nth 10 m 0), (nth 11 m 0). intros q. reflexivity.
Qed.
Lemma affine_comp3 F G : affine_fun3 F -> affine_fun3 G -> affine_fun3 (fun q => G (F q)).
Proof.
  intros (a0 & a1 & a2 & a3 & a4 & a5 & a6 & a7 & a8 & a9 & a10 & a11 & HF)
         (b0 & b1 & b2 & b3 & b4 & b5 & b6 & b7 & b8 & b9 & b10 & b11 & HG).
  exists (b0 * a0 + b1 * a4 + b2 * a8), (b0 * a1 + b1 * a5 + b2 * a9), (b0 * a2 + b1 * a6 + b2 * a10),
         (b0 * a3 + b1 * a7 + b2 * a11 + b3),
         (b4 * a0 + b5 * a4 + b6 * a8), (b4 * a1 + b5 * a5 + b6 * a9), (b4 * a2 + b5 * a6 + b6 * a10),
         (b4 * a3 + b5 * a7 + b6 * a11 + b7),
         (b8 * a0 + b9 * a4 + b10 * a8), (b8 * a1 + b9 * a5 + b10 * a9), (b8 * a2 + b9 * a6 + b10 * a10),
         (b8 * a3 + b9 * a7 + b10 * a11 + b11).
  intros q. rewrite HF, HG. cbn [wx wy wz]. f_equal; ring.
Qed.
Lemma affine_id3 : affine_fun3 (fun q => q).
Proof. exists 1, 0, 0, 0, 0, 1, 0, 0, 0, 0, 1, 0. intros [x y z]; cbn. f_equal; rring. Qed.

Lemma mul44_affine (a b : RM) : affine44 a -> affine44 b -> affine44 (@m44_mul ROps a b).
Proof.
  intros (A12 & A13 & A14 & A15) (B12 & B13 & B14 & B15). unfold affine44, m44_mul; cbn [nth].
  rewrite A12, A13, A14, A15, B12, B13, B14, B15. ropen. repeat split; ring.
Qed.
Lemma mulpos_mul44 (a b : RM) p : affine44 b ->
  @m44_mulposition ROps (@m44_mul ROps a b) p = @m44_mulposition ROps a (@m44_mulposition ROps b p).
Proof.
  intros (B12 & B13 & B14 & B15). unfold m44_mulposition, m44_mul; cbn [nth wx wy wz].
  rewrite B12, B13, B14, B15. ropen. f_equal; ring.
Qed.
Lemma inverse44_affine (m : RM) : affine44 m -> @m44_determinant ROps m <> 0 -> affine44 (@m44_inverse ROps m).
Proof.
  intros (H12 & H13 & H14 & H15) Hd. unfold affine44, m44_inverse; cbn [nth].
  unfold m44_determinant in *. rewrite H12, H13, H14, H15 in *. gen44 m.
  intros a11 a10 a9 a8 a7 a6 a5 a4 a3 a2 a1 a0 Hd. ropen.
  repeat split; try ring. field. intros E; apply Hd; lra.
Qed.
Lemma identity44_mulpos p : @m44_mulposition ROps (@mk_identity3d ROps) p = p.
Proof. destruct p as [x y z]. unfold m44_mulposition; cbn. f_equal; ring. Qed.

Lemma rotunion_box3_mono n (step : RM) : forall V bmin bmax,
  let r := @rotunion_box3 ROps n step V bmin bmax in
  (wx (fst r) <= wx bmin /\ wy (fst r) <= wy bmin /\ wz (fst r) <= wz bmin) /\
  (wx bmax <= wx (snd r) /\ wy bmax <= wy (snd r) /\ wz bmax <= wz (snd r)).
Proof.
  induction n as [|n IH]; intros V bmin bmax; cbn [rotunion_box3 fst snd]; [lra|].
  specialize (IH (map (m44_mulposition step) V) (v3min bmin (v3set_min V)) (v3max bmax (v3set_max V))).
  cbv zeta in IH. cbn [v3min v3max wx wy wz] in IH. destruct IH as ((A & B & C) & (D & E & F)).
  pose proof (Rmin_l (wx bmin) (wx (v3set_min V))). pose proof (Rmin_l (wy bmin) (wy (v3set_min V))).
  pose proof (Rmin_l (wz bmin) (wz (v3set_min V))).
  pose proof (Rmax_l (wx bmax) (wx (v3set_max V))). pose proof (Rmax_l (wy bmax) (wy (v3set_max V))).
  pose proof (Rmax_l (wz bmax) (wz (v3set_max V))).
  ropen. lra.
Qed.

Section RotUnion3.
  Variable f : RV3 -> R.
  Variable bb : RBox3.
  Variables step sstep : RM.
  Hypothesis Hss : affine44 sstep.
  Hypothesis Hinv : forall p, @m44_mulposition ROps step (@m44_mulposition ROps sstep p) = p.
  Hypothesis Hf : forall q, f q < 0 -> in_box3 bb q.

  Lemma rotunion3_tandem n : forall (rot : RM) F V bmin bmax d p,
    affine_fun3 F -> (forall x, F (@m44_mulposition ROps rot x) = x) -> V = map F (box3_vertices bb) ->
    @rotunion_loop3 ROps MinDef f n sstep rot p d < 0 ->
    d < 0 \/ in_box3 (mkBox3 (fst (@rotunion_box3 ROps n step V bmin bmax)) (snd (@rotunion_box3 ROps n step V bmin bmax))) p.
  Proof.
    induction n as [|n IH]; intros rot F V bmin bmax d p HF HFr HV Hlt; cbn [rotunion_loop3 rotunion_box3] in *; [now left|].
    cbv zeta in Hlt. cbn [min_apply] in Hlt. change (omin ROps) with Rmin in Hlt.
    set (F' := fun q => @m44_mulposition ROps step (F q)).
    destruct (IH (m44_mul rot sstep) F' (map (m44_mulposition step) V) (v3min bmin (v3set_min V)) (v3max bmax (v3set_max V))
                 (Rmin d (f (m44_mulposition rot p))) p) as [Hd|Hin]; [| | | exact Hlt | | now right].
    - exact (affine_comp3 F (@m44_mulposition ROps step) HF (mulpos44_affine step)).
    - intros x. unfold F'. rewrite mulpos_mul44 by exact Hss. rewrite HFr. apply Hinv.
    - rewrite HV, map_map. reflexivity.
    - unfold Rmin in Hd. destruct (Rle_dec _ _); [now left | right].
      pose proof (affine_hull3 F bb _ HF (Hf _ Hd)) as Hh. rewrite HFr, <- HV in Hh.
      pose proof (rotunion_box3_mono n step (map (m44_mulposition step) V) (v3min bmin (v3set_min V)) (v3max bmax (v3set_max V))) as M.
      cbv zeta in M. destruct M as ((A & B & C) & (D & E & G)). destruct Hh as (Hx & Hy & Hz).
      cbn [b3min b3max v3min v3max wx wy wz] in *.
      pose proof (Rmin_r (wx bmin) (wx (v3set_min V))). pose proof (Rmin_r (wy bmin) (wy (v3set_min V))).
      pose proof (Rmin_r (wz bmin) (wz (v3set_min V))).
      pose proof (Rmax_r (wx bmax) (wx (v3set_max V))). pose proof (Rmax_r (wy bmax) (wy (v3set_max V))).
      pose proof (Rmax_r (wz bmax) (wz (v3set_max V))).
      ropen. unfold in_box3; cbn [b3min b3max]. lra.
  Qed.
End RotUnion3.

Theorem rotateunion3_enc s num (step : RM) o : affine44 step -> @m44_determinant ROps step <> 0 ->
  @k_rotateunion3 ROps MinDef s num step = Some o -> enc3 s -> enc3 o.
Proof.
  intros Ha Hd H [_ Hs]. unfold k_rotateunion3 in H. kchecks H. cbv zeta in H.
  set (v := box3_vertices (bb3 s)) in *. set (v0 := hd v3zero v) in *.
  pose proof (rotunion_box3_mono (Z.to_nat num) step v v0 v0) as M. cbv zeta in M.
  pose proof (rotunion3_tandem (ev3 s) (bb3 s) step (m44_inverse step) (inverse44_affine _ Ha Hd)
                (fun p => inverse44_correct_r step p Ha Hd) Hs (Z.to_nat num) mk_identity3d (fun q => q) v v0 v0) as T.
  destruct (rotunion_box3 (Z.to_nat num) step v v0 v0) as [bmin bmax]. cbn [fst snd] in *.
  apply some_inj in H. rewrite <- H. destruct M as ((A & B & C) & (D & E & F)).
  split; cbn [bb3 ev3]; [unfold ordered3; cbn [b3min b3max]; lra|].
  intros p Hp. destruct (T (omaxf ROps) p affine_id3 identity44_mulpos) as [Hm|Hin]; [|exact Hp | | exact Hin].
  - unfold v. rewrite map_id. reflexivity.
  - pose proof sentinel_nonneg. lra.
Qed.
