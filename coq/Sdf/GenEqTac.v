(* Tactics of the syntactic tie (Sdf/GenEq.v, GenEqPoly.v, GenEqX.v): how a definition generated
   from the Go source (Generated/SdfExpr.v) is shown equal to the hand-written model function.

   The equalities are decided SEMANTICALLY up to
     - let-structure, helper functions extracted or inlined, named constants (conversion: beta, delta, zeta),
     - the shape of the control flow: nested if/else, else-if chains, `switch`, early `return`, conditions
       combined with && / || / ! or tested one after the other, a test stored in a boolean local first
       (exhaustive case analysis on the ATOMIC tests - comparisons - that occur in `if` conditions;
       atomic tests that are convertible are identified first),
     - reads of a slice element that was just written (`xs[i] = v; .. xs[i] ..` against `.. v ..`), `len` of a
       slice after index assignments, make+index against append (rewriting with the list lemmas of
       Num/Loop.v below, under the length hypotheses a loop invariant provides).
   They are NOT decided up to any law of arithmetic: `O : Ops` is abstract (and float64 has none), so
   a changed expression, comparison, operand order or branch result breaks the lemma of that function.
   Every tactic ends in `reflexivity` on each leaf, so whatever it proves is an ordinary kernel-checked
   equality; when it fails it names the theorem of Props/TRANSL.v (C04, C16) that is broken. *)
From Coq Require Import ZArith List Bool Lia FunctionalExtensionality.
From Sdfx Require Import Num.Ops Num.Loop Geo.Vec Geo.Box Sdf.Shape Generated.SdfExpr.
Import ListNotations.

(* the generator registers every definition of Generated/SdfExpr.v in the unfold database `sdfgen` *)

(* ---------------------------------------------------------------- case analysis on atomic tests *)
(* Case analysis on an atomic test `a` of an `if` condition.  First every atomic test in an `if`
   condition of the goal that is convertible to `a` (the same test with other implicit arguments,
   another let-structure, a helper unfolded) is made syntactically `a`, so that `destruct` sees all. *)
Ltac change_to a c2 := (change c2 with a).
Ltac is_bool x := let t := type of x in lazymatch t with bool => idtac end.
Ltac unify_atoms a c2 :=
  lazymatch c2 with
  | negb ?d => unify_atoms a d
  | andb ?x ?y => unify_atoms a x; unify_atoms a y
  | orb ?x ?y => unify_atoms a x; unify_atoms a y
  | (if ?x then ?y else ?z) => is_bool x; unify_atoms a x; unify_atoms a y; unify_atoms a z
  | true => idtac
  | false => idtac
  | _ => first [ constr_eq a c2 | change_to a c2 | idtac ]
  end.
Ltac destruct_cond a :=
  repeat match goal with
         | |- context [if ?c2 then _ else _] => progress (unify_atoms a c2)
         end;
  destruct a.
(* the leftmost atomic test of a boolean expression *)
Ltac cond_atom c k :=
  lazymatch c with
  | negb ?d => cond_atom d k
  | andb ?a _ => cond_atom a k
  | orb ?a _ => cond_atom a k
  | (if ?a then _ else _) => is_bool a; cond_atom a k
  | _ => k c
  end.
(* a boolean-valued helper (Box2.Contains, Vec.LTEZero, a local predicate) used as a test: open it when
   that exposes && / || / ! / if, so that its atomic tests take part in the case analysis *)
Ltac open_test c :=
  let c' := eval hnf in c in
  lazymatch c' with
  | andb _ _ => change c with c'
  | orb _ _ => change c with c'
  | negb _ => change c with c'
  | (if ?x then _ else _) => is_bool x; change c with c'
  | true => change c with c'
  | false => change c with c'
  end.
Ltac split_ifs :=
  repeat (try reflexivity;
          match goal with
          | |- context [if ?c then _ else _] =>
              lazymatch c with
              | true => fail | false => fail
              | _ => cond_atom c ltac:(fun a => first [ open_test a | destruct_cond a ]);
                     cbn [andb orb negb]
              end
          end).

(* expose the control flow of both sides: the generated definitions (and the model functions the lemma
   unfolded before calling us), lets, the projections of objects and pairs *)
Ltac expose :=
  autounfold with sdfgen;
  cbv beta zeta;
  cbn [fst snd andb orb negb].

(* `same_as TRANSL_x`: conversion, else conversion on every branch of the case analysis; the failure
   message names the theorem of Props/TRANSL.v *)
Ltac same_tac s :=
  intros;
  first [ reflexivity
        | solve [cbv beta zeta; split_ifs]
        | timeout 120 (solve [cbv; split_ifs])
        | fail 1 s ": the definition generated from the current Go source is not the hand-written model function (not convertible, on some branch of the case analysis over the atomic tests)" ].
Tactic Notation "same_as" ident(s) := same_tac s.

(* open the constructor: discharge the argument checks that return None, expose the object *)
Ltac open_k H :=
  repeat match type of H with
         | (if ?c then None else _) = Some _ => destruct c; [discriminate H|]
         end;
  inversion H; subst; clear H.

(* constructor equality: case analysis on the argument checks (atomic tests), then both sides are the same
   object up to conversion.  When the Evaluate closures of the two objects differ in the shape of their control
   flow (which no case analysis can reach under the binder of the point), they are compared pointwise: this
   last resort uses functional extensionality (a standard-library axiom, reported by Print Assumptions then). *)
Ltac hnf_sides :=
  match goal with |- ?l = ?r => let l' := eval hnf in l in let r' := eval hnf in r in change (l' = r') end.
Ltac ext_leaf :=
  repeat (hnf_sides;
         match goal with
         | |- Some _ = Some _ => apply f_equal
         | |- mkObj2 _ _ = mkObj2 _ _ => apply f_equal2
         | |- mkObj3 _ _ = mkObj3 _ _ => apply f_equal2
         | |- (_, _) = (_, _) => apply f_equal2
         end);
  try reflexivity;
  let p := fresh "p" in
  apply functional_extensionality; intro p; cbv; split_ifs.
Ltac ctor_tac s :=
  intros;
  first [ solve [cbv zeta; cbn [orb andb negb]; split_ifs]
        | timeout 120 (solve [cbv; split_ifs])
        | timeout 120 (solve [cbv zeta; cbn [orb andb negb option_map]; split_ifs; ext_leaf])
        | fail 1 s ": the constructor generated from the current Go source is not the model constructor (argument checks, pre-computed fields, closure or bounding box differ)" ].
Tactic Notation "ctor_eq" ident(s) := ctor_tac s.


(* a constructor that delegates to another one (`return Cylinder3D(..)`, or `s, err := Cylinder3D(..); if err != nil
   { return nil, err }; return s, nil`): the lemma of the callee, directly or after a case analysis on its result *)
Ltac via_ctor_tac s lem :=
  first [ apply lem
        | rewrite <- lem;
          repeat match goal with
                 | |- context [match ?c with Some _ => _ | None => _ end] => destruct c as [[? ?]|]
                 end;
          reflexivity
        | fail 1 s ": the constructor generated from the current Go source does not return what the constructor it calls returns" ].
Tactic Notation "via_ctor" ident(s) constr(lem) := via_ctor_tac s lem.

(* ---------------------------------------------------------------- slices: reads after writes *)
Section ListFacts.
  Context {A : Type}.

  Lemma nth_list_set_same : forall (l : list A) n v d, (n < length l)%nat -> nth n (list_set l n v) d = v.
  Proof. induction l as [|x l IH]; intros [|n] v d H; cbn in *; try lia; [reflexivity | apply IH; lia]. Qed.

  Lemma nth_list_set_other : forall (l : list A) n m v d, n <> m -> nth m (list_set l n v) d = nth m l d.
  Proof.
    induction l as [|x l IH]; intros [|n] [|m] v d H; cbn; try reflexivity; try contradiction.
    apply IH. intro; subst; contradiction.
  Qed.

  Lemma nth_snoc_at : forall (l : list A) n v d, n = length l -> nth n (l ++ [v]) d = v.
  Proof. intros; subst. apply nth_app_mid. Qed.

  Lemma nth_snoc_before : forall (l : list A) n v d, (n < length l)%nat -> nth n (l ++ [v]) d = nth n l d.
  Proof. intros. apply app_nth1. assumption. Qed.

  Lemma length_snoc : forall (l : list A) v, length (l ++ [v]) = Datatypes.S (length l).
  Proof. intros. rewrite app_length. cbn. lia. Qed.
End ListFacts.

(* normalise reads after writes; the side conditions (index below the length) come from the hypotheses a
   loop lemma provides *)
Ltac len_tac := rewrite ?list_set_length, ?repeat_length, ?map_length, ?length_snoc in *; (assumption || lia).
Ltac forward_reads :=
  repeat first
    [ rewrite nth_list_set_same by len_tac
    | rewrite nth_snoc_at by len_tac
    | rewrite list_set_length
    | rewrite length_snoc ].


(* ---------------------------------------------------------------- loops: one normal form *)
(* `for i := 0; i < len(xs); i++`, `for i := range xs`, `for i, x := range xs`, `for _, x := range xs`
   all become range_loop over xs (the body may use the index, the element, or xs[i]) *)
Lemma count_loop_range_gen : forall {A S} (xs : list A) (i : Z) (F : Z -> S -> S) (st : S),
  count_loop (length xs) i F st = range_loop xs i (fun j _ s => F j s) st.
Proof. induction xs as [|x xs IH]; intros; cbn; [reflexivity | apply IH]. Qed.
Lemma count_loop_range : forall {A S} (xs : list A) (F : Z -> S -> S) (st : S),
  count_loop (Z.to_nat (Z.of_nat (length xs))) 0%Z F st = range_loop xs 0%Z (fun j _ s => F j s) st.
Proof. intros. rewrite Nat2Z.id. apply count_loop_range_gen. Qed.
Lemma fold_left_range : forall {A S} (xs : list A) (f : S -> A -> S) (st : S),
  fold_left f xs st = range_loop xs 0%Z (fun _ x s => f s x) st.
Proof. intros. symmetry. apply range_loop_fold. Qed.
Lemma count_loop_range0 : forall {A S} (xs : list A) (F : Z -> S -> S) (st : S),
  count_loop (length xs) 0%Z F st = range_loop xs 0%Z (fun j _ s => F j s) st.
Proof. intros. apply count_loop_range_gen. Qed.
Ltac norm_loops := rewrite ?count_loop_range, ?count_loop_range0, ?fold_left_range.


(* `for .. range xs { out = append(out, xs[i]) }` (the element, or xs[i]; an SDF element is re-paired from its
   Evaluate and BoundingBox): a copy *)
Lemma range_loop_strip_gen : forall {A} (S : list A) (d : A) (F : Z -> A -> list A -> list A),
  (forall i x acc, nth (Z.to_nat i) S d = x -> F i x acc = acc ++ [x]) ->
  forall xs pre acc, S = pre ++ xs -> range_loop xs (Z.of_nat (length pre)) F acc = acc ++ xs.
Proof.
  intros A S d F HF. induction xs as [|x xs IH]; intros pre acc HS; cbn [range_loop]; [now rewrite app_nil_r|].
  rewrite (HF _ x) by (rewrite Nat2Z.id, HS; apply nth_app_mid).
  rewrite (Z_of_nat_len_snoc pre x), (IH (pre ++ [x])) by (rewrite <- app_assoc; exact HS).
  rewrite <- app_assoc. reflexivity.
Qed.
Lemma range_loop_strip : forall {A} (S : list A) (d : A) (F : Z -> A -> list A -> list A),
  (forall i x acc, nth (Z.to_nat i) S d = x -> F i x acc = acc ++ [x]) ->
  forall acc, range_loop S 0%Z F acc = acc ++ S.
Proof. intros A S d F HF acc. exact (range_loop_strip_gen S d F HF S [] acc eq_refl). Qed.

(* the zero value the translator uses as the default of an index expression (typ.zero in harness/sdfgen) *)
Ltac zero_of O A :=
  let A' := eval cbv beta delta [Interval] in A in
  lazymatch A' with
  | T O => constr:(o0 O)
  | Z => constr:(0%Z)
  | bool => constr:(false)
  | V2 O => constr:(mkV2 (o0 O) (o0 O))
  | V3 O => constr:(mkV3 (o0 O) (o0 O) (o0 O))
  | (?B * ?C)%type => let b := zero_of O B in let c := zero_of O C in constr:((b, c))
  | list ?B => constr:(@nil B)
  end.

(* One iteration of a generated loop satisfies the specification of the iteration: by conversion,
   after the case analysis on the atomic tests and after forwarding reads of elements just written.
   A hypothesis `nth i S d = x` says which element the iteration is about: x is replaced by S[i], so
   the body may read either. *)
Ltac use_nth :=
  repeat match goal with
         | H : nth _ _ _ = ?x |- _ => is_var x; subst x
         end.
Ltac step_tac s :=
  intros; use_nth;
  first [ reflexivity
        | solve [cbv beta zeta; split_ifs]
        | solve [cbv beta zeta; rewrite <- ?surjective_pairing; split_ifs]
        | timeout 60 (solve [expose; forward_reads; rewrite <- ?surjective_pairing; split_ifs])
        | fail 1 s ": the body of a loop generated from the current Go source is not the loop body of the hand-written model" ].
Tactic Notation "step_eq" ident(s) := step_tac s.

Ltac compute_tac s := cbv; split_ifs; same_tac s.
Tactic Notation "compute_eq" ident(s) := compute_tac s.
(* both sides are `let '(mn, mx) := <loop> in <rest>`: the loops first, then the rest *)
Ltac minmax_tac s :=
  try match goal with
      | |- (let '(a, b) := ?L in _) = (let '(c, d) := ?R in _) =>
          replace L with R by (cbv; reflexivity); destruct R as [mn mx]
      end;
  compute_tac s.
Tactic Notation "minmax_eq" ident(s) := minmax_tac s.
Ltac vm_tac s := vm_compute; same_tac s.
Tactic Notation "vm_eq" ident(s) := vm_tac s.
