(* (7, partial) the model of Box2.lineIntersect / tAppend / Snap: every piece it returns is a
   sub-segment of the line, inside the box, oriented like the line - under the hypothesis that
   Snap does not move any candidate point (each candidate is either exactly on a box side or
   farther than the tolerance from it). *)
From Coq Require Import Reals Lra Lia List Bool ZArith Psatz.
From Sdfx Require Import Num.Ops Num.RInst Geo.Vec Geo.Box Geo.BoxR Sdf.Poly Sdf.PolyR.
Import ListNotations.
Open Scope R_scope.

Definition in01 (t : R) : Prop := 0 <= t <= 1.

Lemma t_append_in01 (ts : list R) (t : R) : Forall in01 ts -> Forall in01 (@t_append ROps ts t).
Proof.
  intros H. unfold t_append. unops.
  destruct (Rltb t 0) eqn:C1; [exact H | apply Rltb_false in C1].
  destruct (Rltb 1 t) eqn:C2; [exact H | apply Rltb_false in C2]. cbn [orb].
  destruct (existsb _ ts); [exact H|]. apply Forall_app. split; [exact H|]. constructor; [split; lra | constructor].
Qed.

Lemma clip_ts_in01 (a : Box2 ROps) (l : SegR) : Forall in01 (clip_ts a l).
Proof.
  unfold clip_ts. unops.
  assert (H0 : Forall in01 [0; 1]) by (constructor; [split; lra | constructor; [split; lra | constructor]]).
  destruct (negb (Reqb (vy (v2sub (snd l) (fst l))) 0)); destruct (negb (Reqb (vx (v2sub (snd l) (fst l))) 0));
    repeat apply t_append_in01; exact H0.
Qed.

Lemma clip_pt_pt (l : SegR) (t : R) : clip_pt l t = pt (fst l) (snd l) t.
Proof.
  destruct l as [[ax ay] [bx by_]]. unfold clip_pt, pt, v2add, v2muls, v2sub; cbn [fst snd vx vy]. unops.
  destruct (Reqb t 0) eqn:C0; [apply Reqb_true in C0; subst t; f_equal; ring|].
  destruct (Reqb t 1) eqn:C1; [apply Reqb_true in C1; subst t; f_equal; ring|].
  f_equal; ring.
Qed.

(* Snap leaves every candidate point where it is *)
Definition snap_inert (a : Box2 ROps) (l : SegR) : Prop :=
  Forall (fun t => box2_snap a (clip_pt l t) tolerance = clip_pt l t) (clip_ts a l).

Lemma dot_pt (A B : V) (t0 t1 : R) :
  v2dot (v2sub B A) (v2sub (pt A B t1) (pt A B t0))
  = (t1 - t0) * ((vx B - vx A) * (vx B - vx A) + (vy B - vy A) * (vy B - vy A)).
Proof. destruct A as [ax ay], B as [bx by_]. unfold v2dot, v2sub, pt; cbn [vx vy]. unops. ring. Qed.

Lemma pt_degenerate (A B : V) (t t' : R) :
  (vx B - vx A) * (vx B - vx A) + (vy B - vy A) * (vy B - vy A) <= 0 -> pt A B t = pt A B t'.
Proof.
  destruct A as [ax ay], B as [bx by_]; cbn [vx vy]. intros H.
  pose proof (sq_nn (bx - ax)). pose proof (sq_nn (by_ - ay)).
  assert (bx - ax = 0) by nra. assert (by_ - ay = 0) by nra.
  unfold pt; cbn [vx vy]. rewrite H2, H3. f_equal; ring.
Qed.

Theorem clip_sound_partial (a : Box2 ROps) (l : SegR) (P Q : V) :
  snap_inert a l -> line_intersect a l = Some (P, Q) ->
  exists s t, in01 s /\ in01 t /\ s <= t /\ P = pt (fst l) (snd l) s /\ Q = pt (fst l) (snd l) t /\
              box2_contains a P = true /\ box2_contains a Q = true.
Proof.
  intros Hin. unfold line_intersect.
  destruct (_ && _); [discriminate|]. destruct (_ && _); [discriminate|].
  destruct (box2_contains a (fst l) && box2_contains a (snd l)) eqn:Cc.
  - intros E. injection E as El. subst l. cbn [fst snd] in *.
    apply andb_true_iff in Cc. destruct Cc as [C1 C2].
    exists 0, 1. rewrite pt_0, pt_1. unfold in01. repeat split; try lra; assumption.
  - set (ps := flat_map _ (clip_ts a l)).
    assert (Hps : forall p, In p ps -> exists t, in01 t /\ p = pt (fst l) (snd l) t /\ box2_contains a p = true).
    { intros p Hp. unfold ps in Hp. apply in_flat_map in Hp. destruct Hp as (t & Ht & Hp).
      pose proof (clip_ts_in01 a l) as H01. unfold snap_inert in Hin. rewrite Forall_forall in H01, Hin.
      rewrite (Hin t Ht) in Hp. destruct (box2_contains a (clip_pt l t)) eqn:Ct; [|destruct Hp].
      destruct Hp as [<-|[]]. exists t. split; [apply H01; exact Ht|]. split; [apply clip_pt_pt | exact Ct]. }
    destruct ps as [|p0 [|p1 [|p2 ps']]]; try discriminate.
    destruct (Hps p0 (or_introl eq_refl)) as (t0 & H0 & E0 & C0).
    destruct (Hps p1 (or_intror (or_introl eq_refl))) as (t1 & H1 & E1 & C1).
    unops. rewrite E0, E1, dot_pt.
    set (vv := (vx (snd l) - vx (fst l)) * (vx (snd l) - vx (fst l)) + (vy (snd l) - vy (fst l)) * (vy (snd l) - vy (fst l))).
    assert (Hvv : 0 <= vv) by (unfold vv; pose proof (sq_nn (vx (snd l) - vx (fst l))); pose proof (sq_nn (vy (snd l) - vy (fst l))); lra).
    destruct (Rltb 0 ((t1 - t0) * vv)) eqn:Co; [apply Rltb_true in Co | apply Rltb_false in Co]; intros E; inversion E; subst P Q.
    + exists t0, t1. repeat split; try apply H0; try apply H1; try reflexivity; try (rewrite <- E0; exact C0); try (rewrite <- E1; exact C1).
      clearbody vv. nra.
    + destruct (Rle_dec vv 0) as [Hz|Hz].
      * exists t0, t0. repeat split; try apply H0; try lra; try (rewrite <- E0; exact C0); try (rewrite <- E1; exact C1).
        apply pt_degenerate. exact Hz.
      * exists t1, t0. repeat split; try apply H0; try apply H1; try reflexivity; try (rewrite <- E0; exact C0); try (rewrite <- E1; exact C1).
        clearbody vv. nra.
Qed.

(* ------------------------------------------------------------ the hypothesis is satisfiable:
   the horizontal segment (-1,1/2)-(2,1/2) against the unit box; candidates 0, 1, 1/3, 2/3 *)
Definition exc_box : Box2 ROps := mkBox2 (mkV2 0 0) (mkV2 1 1).
Definition exc_seg : Seg ROps := (mkV2 (-1) (1 / 2), mkV2 2 (1 / 2)).

Lemma Reqb_neq x y : x <> y -> Reqb x y = false.
Proof. intros H. apply Reqb_false. exact H. Qed.
Lemma Rltb_t x y : x < y -> Rltb x y = true. Proof. intros; apply Rltb_true; assumption. Qed.
Lemma Rltb_f x y : y <= x -> Rltb x y = false. Proof. intros; apply Rltb_false; assumption. Qed.
Lemma Rleb_t x y : x <= y -> Rleb x y = true. Proof. intros; apply Rleb_true; assumption. Qed.
Lemma Rleb_f x y : y < x -> Rleb x y = false. Proof. intros; apply Rleb_false; assumption. Qed.

Lemma tol_val : @tolerance ROps = / 1000000000.
Proof. unfold tolerance, cst. unops. cbn. lra. Qed.

Lemma eqf_false (a b : R) : / 1000000000 <= Rabs (a - b) -> @equal_float64 ROps a b (@tolerance ROps) = false.
Proof.
  intros H. unfold equal_float64. unops. rewrite tol_val.
  assert (a <> b). { intros ->. rewrite Rminus_diag_eq in H by reflexivity. rewrite Rabs_R0 in H. lra. }
  rewrite (Reqb_neq _ _ H0). rewrite (Rltb_f _ _ H). reflexivity.
Qed.
Lemma eqf_refl (a : R) : @equal_float64 ROps a a (@tolerance ROps) = true.
Proof. unfold equal_float64. unops. assert (Reqb a a = true) by (apply Reqb_true; reflexivity). rewrite H. reflexivity. Qed.

Lemma exc_ts : clip_ts exc_box exc_seg = [0; 1; 1 / 3; 2 / 3].
Proof.
  unfold clip_ts, exc_box, exc_seg, v2sub; cbn [fst snd vx vy b2min b2max]. unops.
  replace (1 / 2 - 1 / 2) with 0 by lra. replace (2 - -1) with 3 by lra.
  rewrite (proj2 (Reqb_true 0 0) eq_refl). cbn [negb].
  rewrite (Reqb_neq 3 0) by lra. cbn [negb].
  replace ((0 - -1) * (1 / 3)) with (1 / 3) by lra. replace ((1 - -1) * (1 / 3)) with (2 / 3) by lra.
  unfold t_append. unops.
  rewrite (Rltb_f (1 / 3) 0), (Rltb_f 1 (1 / 3)) by lra. cbn [orb existsb].
  rewrite (eqf_false 0 (1 / 3)), (eqf_false 1 (1 / 3)); cbn [orb app].
  2,3: unfold Rabs; destruct (Rcase_abs _); lra.
  rewrite (Rltb_f (2 / 3) 0), (Rltb_f 1 (2 / 3)) by lra. cbn [orb existsb].
  rewrite (eqf_false 0 (2 / 3)), (eqf_false 1 (2 / 3)), (eqf_false (1 / 3) (2 / 3)); cbn [orb app].
  2,3,4: unfold Rabs; destruct (Rcase_abs _); lra.
  reflexivity.
Qed.

Lemma snapf_far (a b : R) : / 1000000000 <= Rabs (a - b) -> @snap_float64 ROps a b (@tolerance ROps) = a.
Proof. intros H. unfold snap_float64. rewrite (eqf_false a b H). reflexivity. Qed.
Lemma snapf_same (a : R) : @snap_float64 ROps a a (@tolerance ROps) = a.
Proof. unfold snap_float64. rewrite eqf_refl. reflexivity. Qed.

Lemma snap_pair_id (x lo hi : R) :
  (x = lo \/ / 1000000000 <= Rabs (x - lo)) -> (x = hi \/ / 1000000000 <= Rabs (x - hi)) ->
  @snap_float64 ROps (@snap_float64 ROps x lo (@tolerance ROps)) hi (@tolerance ROps) = x.
Proof.
  intros [->|H1]; [rewrite snapf_same | rewrite (snapf_far _ _ H1)];
  (intros [->|H2]; [rewrite snapf_same | rewrite (snapf_far _ _ H2)]); reflexivity.
Qed.
Ltac far := unfold Rabs; match goal with |- context [Rcase_abs ?x] => destruct (Rcase_abs x) end; lra.

Lemma exc_snap_inert : snap_inert exc_box exc_seg.
Proof.
  unfold snap_inert. rewrite exc_ts.
  repeat (apply Forall_cons; [|]); try apply Forall_nil;
  rewrite clip_pt_pt; unfold exc_seg, exc_box, pt, box2_snap; cbn [fst snd vx vy b2min b2max]; f_equal;
  apply snap_pair_id; first [left; lra | right; far].
Qed.
