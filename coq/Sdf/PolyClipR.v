(* (7) Box2.lineClip / Box2.lineIntersect / qtBuild over the reals, FULL statement: for every box and
   every segment the pieces returned for the four sub-quadrants chain up to the segment (none lost,
   none doubled, joints on the segment), each piece is owned by its quadrant, and therefore qtBuild
   yields a well_clipped family for EVERY list of segments - no tolerance, no separation hypothesis.
   math.Nextafter is the identity at the real instance (the reals have no gaps; the interpolated point
   lies in the range it is clamped to). *)
From Coq Require Import Reals Lra Lia List Bool ZArith Psatz Permutation.
From Sdfx Require Import Num.Ops Num.RInst Geo.Vec Geo.Box Geo.BoxR Sdf.Poly Sdf.PolyR Sdf.PolyTreeR.
Import ListNotations.
Open Scope R_scope.

Definition idn (x _ : R) : R := x.
Notation clipR := (@line_clip ROps idn).
Notation lineR := (@line_intersect ROps idn).

Definition o2l {A} (o : option A) : list A := match o with Some x => [x] | None => [] end.

Lemma Reqb_t x y : x = y -> Reqb x y = true. Proof. intros; apply Reqb_true; assumption. Qed.
Lemma Reqb_f x y : x <> y -> Reqb x y = false. Proof. intros; apply Reqb_false; assumption. Qed.
Lemma Rltb_t x y : x < y -> Rltb x y = true. Proof. intros; apply Rltb_true; assumption. Qed.
Lemma Rltb_f x y : y <= x -> Rltb x y = false. Proof. intros; apply Rltb_false; assumption. Qed.
Lemma Rleb_t x y : x <= y -> Rleb x y = true. Proof. intros; apply Rleb_true; assumption. Qed.
Lemma Rleb_f x y : y < x -> Rleb x y = false. Proof. intros; apply Rleb_false; assumption. Qed.

Lemma Rmin_lt a b : a <= b -> Rmin a b = a. Proof. intros; apply Rmin_left; assumption. Qed.
Lemma Rmin_gt a b : b <= a -> Rmin a b = b. Proof. intros; apply Rmin_right; assumption. Qed.
Lemma Rmax_lt a b : a <= b -> Rmax a b = b. Proof. intros; apply Rmax_right; assumption. Qed.
Lemma Rmax_gt a b : b <= a -> Rmax a b = a. Proof. intros; apply Rmax_left; assumption. Qed.

(* ------------------------------------------------------------ lineClip, one coordinate *)
(* the clamp of the interpolated ordinate is the identity: y lies between the end ordinates *)
Lemma clamp_between (ay by_ s : R) : 0 <= s <= 1 ->
  Rmin (Rmax (ay + (by_ - ay) * s) (Rmin ay by_)) (idn (Rmax ay by_) (Rmin ay by_)) = ay + (by_ - ay) * s.
Proof.
  intros Hs. unfold idn. destruct (Rle_dec ay by_) as [H|H].
  - rewrite (Rmin_lt ay by_), (Rmax_lt ay by_) by lra.
    assert (ay <= ay + (by_ - ay) * s <= by_) by nra.
    rewrite Rmax_gt by lra. rewrite Rmin_lt by lra. reflexivity.
  - rewrite (Rmin_gt ay by_), (Rmax_gt ay by_) by lra.
    assert (by_ <= ay + (by_ - ay) * s <= ay) by nra.
    rewrite Rmax_gt by lra. rewrite Rmin_lt by lra. reflexivity.
Qed.

(* a vertical line: kept whole iff mn <= x < mx *)
Lemma clip_vertical (l : SegR) (mn mx : R) : vx (fst l) = vx (snd l) ->
  clipR l mn mx = if Rltb (vx (fst l)) mn || Rleb mx (vx (fst l)) then None else Some l.
Proof. intros H. unfold line_clip. unops. rewrite (Reqb_t _ _ H). reflexivity. Qed.

(* both end points in range (and not a vertical line along mx): the line itself *)
Lemma clip_inside (l : SegR) (mn mx : R) :
  mn <= vx (fst l) <= mx -> mn <= vx (snd l) <= mx -> ~ (vx (fst l) = vx (snd l) /\ vx (fst l) = mx) ->
  clipR l mn mx = Some l.
Proof.
  destruct l as [[ax ay] [bx by_]]; cbn [fst snd vx vy]. intros HA HB Hn.
  unfold line_clip; cbn [fst snd vx vy]. unops.
  destruct (Reqb ax bx) eqn:E; [apply Reqb_true in E | apply Reqb_false in E].
  - rewrite Rltb_f by lra. rewrite Rleb_f; [reflexivity|]. destruct (Rlt_dec ax mx); [assumption|]. exfalso. apply Hn. split; lra.
  - assert (mn < Rmax ax bx) by (unfold Rmax; destruct (Rle_dec ax bx); lra).
    assert (Rmin ax bx < mx) by (unfold Rmin; destruct (Rle_dec ax bx); lra).
    rewrite Rleb_f by assumption. rewrite Rleb_f by assumption. cbn [orb].
    rewrite (Rmax_gt ax mn), (Rmin_lt ax mx), (Rmax_gt bx mn), (Rmin_lt bx mx) by lra.
    rewrite (Reqb_t ax ax), (Reqb_t bx bx) by reflexivity. reflexivity.
Qed.

(* both end points at or beyond one end of the range (not a vertical line in range): nothing *)
Lemma clip_below (l : SegR) (mn mx : R) :
  vx (fst l) <= mn -> vx (snd l) <= mn -> ~ (vx (fst l) = vx (snd l) /\ vx (fst l) = mn) -> clipR l mn mx = None.
Proof.
  destruct l as [[ax ay] [bx by_]]; cbn [fst snd vx vy]. intros HA HB Hn.
  unfold line_clip; cbn [fst snd vx vy]. unops.
  destruct (Reqb ax bx) eqn:E; [apply Reqb_true in E | apply Reqb_false in E].
  - rewrite Rltb_t; [reflexivity|]. destruct (Rlt_dec ax mn); [assumption|]. exfalso. apply Hn. split; lra.
  - rewrite (Rleb_t (Rmax ax bx) mn); [reflexivity|]. unfold Rmax; destruct (Rle_dec ax bx); lra.
Qed.
Lemma clip_above (l : SegR) (mn mx : R) :
  mx <= vx (fst l) -> mx <= vx (snd l) -> clipR l mn mx = None.
Proof.
  destruct l as [[ax ay] [bx by_]]; cbn [fst snd vx vy]. intros HA HB.
  unfold line_clip; cbn [fst snd vx vy]. unops.
  destruct (Reqb ax bx) eqn:E; [apply Reqb_true in E | apply Reqb_false in E].
  - rewrite (Rleb_t mx ax) by lra. rewrite orb_true_r. reflexivity.
  - rewrite (Rleb_t mx (Rmin ax bx)); [rewrite orb_true_r; reflexivity|]. unfold Rmin; destruct (Rle_dec ax bx); lra.
Qed.

(* the point of the line at abscissa c *)
Definition cutpt (l : SegR) (c : R) : V :=
  pt (fst l) (snd l) ((c - vx (fst l)) / (vx (snd l) - vx (fst l))).

Lemma cutpt_between (l : SegR) (c : R) :
  (vx (fst l) < c < vx (snd l) \/ vx (snd l) < c < vx (fst l)) ->
  between (fst l) (snd l) (cutpt l c) ((c - vx (fst l)) / (vx (snd l) - vx (fst l))) /\ vx (cutpt l c) = c.
Proof.
  destruct l as [[ax ay] [bx by_]]; cbn [fst snd vx vy]. intros H.
  unfold cutpt, between, pt; cbn [fst snd vx vy].
  assert (Hd : bx - ax <> 0) by lra.
  split; [split; [|split; reflexivity]|].
  - split.
    + destruct H; [apply Rdiv_lt_0_compat; lra|].
      replace ((c - ax) / (bx - ax)) with ((ax - c) / (ax - bx)) by (field; lra). apply Rdiv_lt_0_compat; lra.
    + destruct H.
      * apply Rmult_lt_reg_r with (bx - ax); [lra|]. replace ((c - ax) / (bx - ax) * (bx - ax)) with (c - ax) by (field; lra). lra.
      * replace ((c - ax) / (bx - ax)) with ((ax - c) / (ax - bx)) by (field; lra).
        apply Rmult_lt_reg_r with (ax - bx); [lra|]. replace ((ax - c) / (ax - bx) * (ax - bx)) with (ax - c) by (field; lra). lra.
  - cbn [vx]. unops. field. lra.
Qed.

(* the line crosses the upper end mx of the range going up: the part up to the crossing point *)
Lemma clip_cut_hi_fwd (l : SegR) (mn mx : R) :
  mn <= vx (fst l) < mx -> mx < vx (snd l) -> clipR l mn mx = Some (fst l, cutpt l mx).
Proof.
  destruct l as [[ax ay] [bx by_]]; cbn [fst snd vx vy]. intros HA HB.
  unfold line_clip, cutpt, pt; cbn [fst snd vx vy]. unops.
  rewrite (Reqb_f ax bx) by lra.
  rewrite (Rmax_lt ax bx), (Rmin_lt ax bx) by lra. rewrite (Rleb_f bx mn), (Rleb_f mx ax) by lra. cbn [orb].
  rewrite (Rmax_gt ax mn), (Rmin_lt ax mx), (Rmax_gt bx mn), (Rmin_gt bx mx) by lra.
  rewrite (Reqb_t ax ax) by reflexivity. rewrite (Reqb_f mx bx) by lra. cbn [negb].
  assert (Hs : 0 <= (mx - ax) / (bx - ax) <= 1).
  { split; [apply Rlt_le; apply Rdiv_lt_0_compat; lra|].
    apply Rmult_le_reg_r with (bx - ax); [lra|]. replace ((mx - ax) / (bx - ax) * (bx - ax)) with (mx - ax) by (field; lra). lra. }
  rewrite (clamp_between ay by_ _ Hs). do 3 f_equal; [field; lra | ring].
Qed.
(* ... going down: the part from the crossing point on *)
Lemma clip_cut_hi_bwd (l : SegR) (mn mx : R) :
  mx < vx (fst l) -> mn <= vx (snd l) < mx -> clipR l mn mx = Some (cutpt l mx, snd l).
Proof.
  destruct l as [[ax ay] [bx by_]]; cbn [fst snd vx vy]. intros HA HB.
  unfold line_clip, cutpt, pt; cbn [fst snd vx vy]. unops.
  rewrite (Reqb_f ax bx) by lra.
  rewrite (Rmax_gt ax bx), (Rmin_gt ax bx) by lra. rewrite (Rleb_f ax mn), (Rleb_f mx bx) by lra. cbn [orb].
  rewrite (Rmax_gt ax mn), (Rmin_gt ax mx), (Rmax_gt bx mn), (Rmin_lt bx mx) by lra.
  rewrite (Reqb_t bx bx) by reflexivity. rewrite (Reqb_f mx ax) by lra. cbn [negb].
  assert (Hs : 0 <= (mx - ax) / (bx - ax) <= 1).
  { replace ((mx - ax) / (bx - ax)) with ((ax - mx) / (ax - bx)) by (field; lra).
    split; [apply Rlt_le; apply Rdiv_lt_0_compat; lra|].
    apply Rmult_le_reg_r with (ax - bx); [lra|]. replace ((ax - mx) / (ax - bx) * (ax - bx)) with (ax - mx) by (field; lra). lra. }
  rewrite (clamp_between ay by_ _ Hs). do 3 f_equal; [field; lra | ring].
Qed.
(* the line crosses the lower end mn of the range going up: the part from the crossing point on *)
Lemma clip_cut_lo_fwd (l : SegR) (mn mx : R) :
  vx (fst l) < mn -> mn < vx (snd l) <= mx -> clipR l mn mx = Some (cutpt l mn, snd l).
Proof.
  destruct l as [[ax ay] [bx by_]]; cbn [fst snd vx vy]. intros HA HB.
  unfold line_clip, cutpt, pt; cbn [fst snd vx vy]. unops.
  rewrite (Reqb_f ax bx) by lra.
  rewrite (Rmax_lt ax bx), (Rmin_lt ax bx) by lra. rewrite (Rleb_f bx mn), (Rleb_f mx ax) by lra. cbn [orb].
  rewrite (Rmax_lt ax mn), (Rmin_lt mn mx), (Rmax_gt bx mn), (Rmin_lt bx mx) by lra.
  rewrite (Reqb_t bx bx) by reflexivity. rewrite (Reqb_f mn ax) by lra. cbn [negb].
  assert (Hs : 0 <= (mn - ax) / (bx - ax) <= 1).
  { split; [apply Rlt_le; apply Rdiv_lt_0_compat; lra|].
    apply Rmult_le_reg_r with (bx - ax); [lra|]. replace ((mn - ax) / (bx - ax) * (bx - ax)) with (mn - ax) by (field; lra). lra. }
  rewrite (clamp_between ay by_ _ Hs). do 3 f_equal; [field; lra | ring].
Qed.
(* ... going down: the part up to the crossing point *)
Lemma clip_cut_lo_bwd (l : SegR) (mn mx : R) :
  mn < vx (fst l) <= mx -> vx (snd l) < mn -> clipR l mn mx = Some (fst l, cutpt l mn).
Proof.
  destruct l as [[ax ay] [bx by_]]; cbn [fst snd vx vy]. intros HA HB.
  unfold line_clip, cutpt, pt; cbn [fst snd vx vy]. unops.
  rewrite (Reqb_f ax bx) by lra.
  rewrite (Rmax_gt ax bx), (Rmin_gt ax bx) by lra. rewrite (Rleb_f ax mn), (Rleb_f mx bx) by lra. cbn [orb].
  rewrite (Rmax_gt ax mn), (Rmin_lt ax mx), (Rmax_lt bx mn), (Rmin_lt mn mx) by lra.
  rewrite (Reqb_t ax ax) by reflexivity. rewrite (Reqb_f mn bx) by lra. cbn [negb].
  assert (Hs : 0 <= (mn - ax) / (bx - ax) <= 1).
  { replace ((mn - ax) / (bx - ax)) with ((ax - mn) / (ax - bx)) by (field; lra).
    split; [apply Rlt_le; apply Rdiv_lt_0_compat; lra|].
    apply Rmult_le_reg_r with (ax - bx); [lra|]. replace ((ax - mn) / (ax - bx) * (ax - bx)) with (ax - mn) by (field; lra). lra. }
  rewrite (clamp_between ay by_ _ Hs). do 3 f_equal; [field; lra | ring].
Qed.

Lemma classic_eq2 (a b c : R) : (a = b /\ a = c) \/ ~ (a = b /\ a = c).
Proof. destruct (Req_dec a b); destruct (Req_dec a c); tauto. Qed.

(* ------------------------------------------------------------ splitting a range at c *)
(* a and b lie in [mn, mx], and the line is not one running along mx *)
Definition own1 (mn mx a b : R) : Prop := mn <= a <= mx /\ mn <= b <= mx /\ ~ (a = b /\ a = mx).

(* what the two halves [mn,c], [c,mx] of a range return for a line owned by the range *)
Inductive split2 (l : SegR) (L Rr : option SegR) : Prop :=
| S2l : L = Some l -> Rr = None -> split2 l L Rr
| S2r : L = None -> Rr = Some l -> split2 l L Rr
| S2c (C : V) (s : R) : between (fst l) (snd l) C s -> L = Some (fst l, C) -> Rr = Some (C, snd l) -> split2 l L Rr
| S2d (C : V) (s : R) : between (fst l) (snd l) C s -> L = Some (C, snd l) -> Rr = Some (fst l, C) -> split2 l L Rr.

Ltac own_tac :=
  unfold own1; repeat split; try lra;
  try (let H1 := fresh in let H2 := fresh in intros [H1 H2]; try lra;
       match goal with Hn : ~ _ |- _ => apply Hn; split; lra end).
Lemma clip_split (l : SegR) (mn c mx : R) :
  own1 mn mx (vx (fst l)) (vx (snd l)) -> mn < c < mx ->
  split2 l (clipR l mn c) (clipR l c mx) /\
  (forall P, clipR l mn c = Some P -> own1 mn c (vx (fst P)) (vx (snd P))) /\
  (forall P, clipR l c mx = Some P -> own1 c mx (vx (fst P)) (vx (snd P))).
Proof.
  intros (HA & HB & Hn) Hc.
  set (ax := vx (fst l)) in *. set (bx := vx (snd l)) in *.
  destruct (Rle_dec ax c) as [Ha|Ha]; destruct (Rle_dec bx c) as [Hb|Hb].
  - destruct (classic_eq2 ax bx c) as [E|E].
    + (* the vertical line along c: right half *)
      destruct E as [E1 E2].
      assert (L : clipR l mn c = None) by (apply clip_above; fold ax bx; lra).
      assert (Rr : clipR l c mx = Some l) by (apply clip_inside; fold ax bx; try lra; intros [? ?]; apply Hn; split; lra).
      rewrite L, Rr. split; [apply S2r; reflexivity|]. split; [discriminate|].
      intros P HP. inversion HP; subst P. fold ax bx. own_tac.
    + assert (L : clipR l mn c = Some l) by (apply clip_inside; fold ax bx; try lra; exact E).
      assert (Rr : clipR l c mx = None) by (apply clip_below; fold ax bx; try lra; exact E).
      rewrite L, Rr. split; [apply S2l; reflexivity|]. split; [|discriminate].
      intros P HP. inversion HP; subst P. fold ax bx. own_tac.
  - (* ax <= c < bx *)
    destruct (Req_dec ax c) as [E|E].
    + assert (L : clipR l mn c = None) by (apply clip_above; fold ax bx; lra).
      assert (Rr : clipR l c mx = Some l) by (apply clip_inside; fold ax bx; try lra; intros [? ?]; lra).
      rewrite L, Rr. split; [apply S2r; reflexivity|]. split; [discriminate|].
      intros P HP. inversion HP; subst P. fold ax bx. own_tac.
    + assert (Hlt : ax < c < bx) by lra.
      destruct (cutpt_between l c (or_introl Hlt)) as [Hbt Hcx].
      assert (L : clipR l mn c = Some (fst l, cutpt l c)) by (apply clip_cut_hi_fwd; fold ax bx; lra).
      assert (Rr : clipR l c mx = Some (cutpt l c, snd l)) by (apply clip_cut_lo_fwd; fold ax bx; lra).
      rewrite L, Rr. split; [eapply S2c; [exact Hbt | reflexivity | reflexivity]|]. split.
      * intros P HP. inversion HP; subst P. cbn [fst snd]. rewrite Hcx. fold ax. own_tac.
      * intros P HP. inversion HP; subst P. cbn [fst snd]. rewrite Hcx. fold bx. own_tac.
  - (* bx <= c < ax *)
    destruct (Req_dec bx c) as [E|E].
    + assert (L : clipR l mn c = None) by (apply clip_above; fold ax bx; lra).
      assert (Rr : clipR l c mx = Some l) by (apply clip_inside; fold ax bx; try lra; intros [? ?]; lra).
      rewrite L, Rr. split; [apply S2r; reflexivity|]. split; [discriminate|].
      intros P HP. inversion HP; subst P. fold ax bx. own_tac.
    + assert (Hlt : bx < c < ax) by lra.
      destruct (cutpt_between l c (or_intror Hlt)) as [Hbt Hcx].
      assert (L : clipR l mn c = Some (cutpt l c, snd l)) by (apply clip_cut_hi_bwd; fold ax bx; lra).
      assert (Rr : clipR l c mx = Some (fst l, cutpt l c)) by (apply clip_cut_lo_bwd; fold ax bx; lra).
      rewrite L, Rr. split; [eapply S2d; [exact Hbt | reflexivity | reflexivity]|]. split.
      * intros P HP. inversion HP; subst P. cbn [fst snd]. rewrite Hcx. fold bx. own_tac.
      * intros P HP. inversion HP; subst P. cbn [fst snd]. rewrite Hcx. fold ax. own_tac.
  - (* both beyond c *)
    assert (L : clipR l mn c = None) by (apply clip_above; fold ax bx; lra).
    assert (Rr : clipR l c mx = Some l) by (apply clip_inside; fold ax bx; try lra; exact Hn).
    rewrite L, Rr. split; [apply S2r; reflexivity|]. split; [discriminate|].
    intros P HP. inversion HP; subst P. fold ax bx. own_tac.
Qed.

(* a sub-piece of a line owned by a range (in the other coordinate) is owned by that range *)
Lemma own1_sub_x (A B C : V) (s lo hi : R) : between A B C s -> own1 lo hi (vx A) (vx B) ->
  own1 lo hi (vx A) (vx C) /\ own1 lo hi (vx C) (vx B).
Proof.
  intros ((Hs0 & Hs1) & Hx & Hy) (HA & HB & Hn). rewrite Hx.
  assert (lo <= vx A + s * (vx B - vx A) <= hi) by nra.
  unfold own1. repeat split; try lra.
  - intros [E1 E2]. assert (vx B = vx A) by nra. apply Hn. split; lra.
  - intros [E1 E2]. assert (vx B = vx A) by nra. apply Hn. split; lra.
Qed.
Lemma own1_sub_y (A B C : V) (s lo hi : R) : between A B C s -> own1 lo hi (vy A) (vy B) ->
  own1 lo hi (vy A) (vy C) /\ own1 lo hi (vy C) (vy B).
Proof.
  intros ((Hs0 & Hs1) & Hx & Hy) (HA & HB & Hn). rewrite Hy.
  assert (lo <= vy A + s * (vy B - vy A) <= hi) by nra.
  unfold own1. repeat split; try lra.
  - intros [E1 E2]. assert (vy B = vy A) by nra. apply Hn. split; lra.
  - intros [E1 E2]. assert (vy B = vy A) by nra. apply Hn. split; lra.
Qed.

(* the pieces named by split2 and their ownership in the other coordinate *)
Lemma split2_own_y (l : SegR) (L Rr : option SegR) (lo hi : R) :
  split2 l L Rr -> own1 lo hi (vy (fst l)) (vy (snd l)) ->
  forall P, (L = Some P \/ Rr = Some P) -> own1 lo hi (vy (fst P)) (vy (snd P)).
Proof.
  intros H Ho P HP.
  destruct H as [HL HR | HL HR | C s Hb HL HR | C s Hb HL HR]; rewrite HL, HR in HP;
    destruct HP as [HP|HP]; try discriminate; inversion HP; subst P; cbn [fst snd]; try exact Ho;
    destruct (own1_sub_y _ _ _ s lo hi Hb Ho); assumption.
Qed.
Lemma split2_own_x (l : SegR) (L Rr : option SegR) (lo hi : R) :
  split2 l L Rr -> own1 lo hi (vx (fst l)) (vx (snd l)) ->
  forall P, (L = Some P \/ Rr = Some P) -> own1 lo hi (vx (fst P)) (vx (snd P)).
Proof.
  intros H Ho P HP.
  destruct H as [HL HR | HL HR | C s Hb HL HR | C s Hb HL HR]; rewrite HL, HR in HP;
    destruct HP as [HP|HP]; try discriminate; inversion HP; subst P; cbn [fst snd]; try exact Ho;
    destruct (own1_sub_x _ _ _ s lo hi Hb Ho); assumption.
Qed.

(* the two halves return a chain of the line (in some order) *)
Lemma is_chain_self (l : SegR) : is_chain l [l].
Proof. destruct l as [A B]. unfold is_chain; cbn [fst snd]. apply chain_last; [symmetry; apply pt_0 | lra]. Qed.
Lemma between_eq (A B C : V) (s : R) : between A B C s -> C = pt A B s.
Proof. intros (_ & Hx & Hy). destruct C as [cx cy]. unfold pt. cbn [vx vy] in *. subst. reflexivity. Qed.
Lemma is_chain_cut (A B C : V) (s : R) : between A B C s -> is_chain (A, B) [(A, C); (C, B)].
Proof.
  intros Hb. pose proof (between_eq _ _ _ _ Hb) as EC. destruct Hb as (Hs & _).
  unfold is_chain; cbn [fst snd].
  apply (chain_cons _ _ A C 0 s); [symmetry; apply pt_0 | exact EC | lra|].
  apply chain_last; [exact EC | lra].
Qed.
Lemma split2_chain (l : SegR) (L Rr : option SegR) : split2 l L Rr ->
  exists ch, is_chain l ch /\ Permutation (o2l L ++ o2l Rr) ch.
Proof.
  intros [HL HR | HL HR | C s Hb HL HR | C s Hb HL HR]; rewrite HL, HR; cbn [o2l app].
  - exists [l]. split; [apply is_chain_self | apply Permutation_refl].
  - exists [l]. split; [apply is_chain_self | apply Permutation_refl].
  - exists [(fst l, C); (C, snd l)]. split; [destruct l; apply (is_chain_cut _ _ _ s Hb) | apply Permutation_refl].
  - exists [(fst l, C); (C, snd l)]. split; [destruct l; apply (is_chain_cut _ _ _ s Hb) | apply perm_swap].
Qed.

(* ------------------------------------------------------------ the other coordinate: swap *)
Notation swp := (@swap_xy ROps).
Definition swv (p : V) : V := mkV2 (vy p) (vx p).
Lemma swp_swp (l : SegR) : swp (swp l) = l.
Proof. destruct l as [[ax ay] [bx by_]]. reflexivity. Qed.
Lemma swp_pair (A B : V) : swp (A, B) = (swv A, swv B).
Proof. reflexivity. Qed.
Lemma swv_swv (p : V) : swv (swv p) = p. Proof. destruct p; reflexivity. Qed.
Lemma between_swv (A B C : V) (s : R) : between (swv A) (swv B) C s -> between A B (swv C) s.
Proof. unfold between, swv; cbn [vx vy]. tauto. Qed.

Definition clipY (l : SegR) (mn mx : R) : option SegR := option_map swp (clipR (swp l) mn mx).

Lemma split2_swp (l : SegR) (L Rr : option SegR) : split2 (swp l) L Rr -> split2 l (option_map swp L) (option_map swp Rr).
Proof.
  destruct l as [A B]. rewrite swp_pair. cbn [fst snd].
  intros [HL HR | HL HR | C s Hb HL HR | C s Hb HL HR]; rewrite HL, HR; cbn [option_map].
  - apply S2l; [|reflexivity]. rewrite <- swp_pair, swp_swp. reflexivity.
  - apply S2r; [reflexivity|]. rewrite <- swp_pair, swp_swp. reflexivity.
  - apply (S2c _ _ _ (swv C) s); cbn [fst snd]; [apply between_swv; exact Hb | |]; rewrite swp_pair, swv_swv; reflexivity.
  - apply (S2d _ _ _ (swv C) s); cbn [fst snd]; [apply between_swv; exact Hb | |]; rewrite swp_pair, swv_swv; reflexivity.
Qed.

Lemma clipY_split (l : SegR) (mn c mx : R) :
  own1 mn mx (vy (fst l)) (vy (snd l)) -> mn < c < mx ->
  split2 l (clipY l mn c) (clipY l c mx) /\
  (forall P, clipY l mn c = Some P -> own1 mn c (vy (fst P)) (vy (snd P))) /\
  (forall P, clipY l c mx = Some P -> own1 c mx (vy (fst P)) (vy (snd P))).
Proof.
  intros Ho Hc. destruct (clip_split (swp l) mn c mx) as (H2 & HL & HR); [destruct l as [[? ?] [? ?]]; exact Ho | exact Hc |].
  split; [apply split2_swp; exact H2|]. unfold clipY. split.
  - intros P HP. destruct (clipR (swp l) mn c) as [Q|]; [|discriminate]. inversion HP; subst P.
    specialize (HL Q eq_refl). destruct Q as [[? ?] [? ?]]. exact HL.
  - intros P HP. destruct (clipR (swp l) c mx) as [Q|]; [|discriminate]. inversion HP; subst P.
    specialize (HR Q eq_refl). destruct Q as [[? ?] [? ?]]. exact HR.
Qed.

(* ------------------------------------------------------------ chains of chains *)
Lemma pt_pt (A B : V) (t0 t1 u : R) : pt (pt A B t0) (pt A B t1) u = pt A B (t0 + u * (t1 - t0)).
Proof. destruct A as [ax ay], B as [bx by_]. unfold pt; cbn [vx vy]. f_equal; ring. Qed.

(* a chain of the sub-segment [t0,t1] of AB, followed by a chain of the rest, is a chain of AB *)
Lemma chain_from_sub (A B : V) (t0 t1 : R) (rest : list SegR) : t0 < t1 -> t1 < 1 -> chain_from A B t1 rest ->
  forall (u : R) (pcs : list SegR), 0 <= u -> chain_from (pt A B t0) (pt A B t1) u pcs ->
  chain_from A B (t0 + u * (t1 - t0)) (pcs ++ rest).
Proof.
  intros H01 H1 Hrest u pcs Hu Hc.
  remember (pt A B t0) as A' eqn:EA. remember (pt A B t1) as B' eqn:EB.
  induction Hc as [S u ES Hlt | S C u u1 rest' ES EC Hlt Hc IH]; subst A' B'.
  - cbn [app]. apply (chain_cons A B S (pt A B t1) _ t1); [rewrite ES; apply pt_pt | reflexivity | nra | exact Hrest].
  - cbn [app]. apply (chain_cons A B S C _ (t0 + u1 * (t1 - t0))); [rewrite ES; apply pt_pt | rewrite EC; apply pt_pt | nra |].
    apply IH; first [lra | reflexivity].
Qed.
Lemma pt_pt1 (A B : V) (t0 u : R) : pt (pt A B t0) B u = pt A B (t0 + u * (1 - t0)).
Proof. destruct A as [ax ay], B as [bx by_]. unfold pt; cbn [vx vy]. f_equal; ring. Qed.
Lemma chain_from_tail (A B : V) (t0 : R) : t0 < 1 ->
  forall (u : R) (pcs : list SegR), 0 <= u -> chain_from (pt A B t0) B u pcs -> chain_from A B (t0 + u * (1 - t0)) pcs.
Proof.
  intros H0 u pcs Hu Hc. remember (pt A B t0) as A' eqn:EA.
  induction Hc as [S u ES Hlt | S C u u1 rest' ES EC Hlt Hc IH]; subst A'.
  - apply chain_last; [rewrite ES; apply pt_pt1 | nra].
  - apply (chain_cons A B S C _ (t0 + u1 * (1 - t0))); [rewrite ES; apply pt_pt1 | rewrite EC; apply pt_pt1 | nra |].
    apply IH; first [lra | reflexivity].
Qed.

Lemma chain_flatten_from (A B : V) : forall (t : R * list SegR), chain_from A B (fst t) (snd t) ->
  forall CH, Forall2 is_chain (snd t) CH -> chain_from A B (fst t) (concat CH).
Proof.
  intros [ta c]; cbn [fst snd]. intros Hch.
  induction Hch as [S t0 ES Hlt | S C t0 t1 rest ES EC Hlt Hc IH]; intros CH HF.
  - subst S. inversion HF as [|? ch1 ? CH' H1 HF']; subst. inversion HF'; subst. cbn [concat]. rewrite app_nil_r.
    unfold is_chain in H1; cbn [fst snd] in H1.
    replace t0 with (t0 + 0 * (1 - t0)) by ring. apply chain_from_tail; [exact Hlt | lra | exact H1].
  - subst S C. inversion HF as [|? ch1 ? CH' H1 HF']; subst. cbn [concat].
    unfold is_chain in H1; cbn [fst snd] in H1.
    replace t0 with (t0 + 0 * (t1 - t0)) by ring.
    apply chain_from_sub; [lra | lra | apply IH; exact HF' | lra | exact H1].
Qed.
Lemma chain_flatten (l : SegR) (c : list SegR) (CH : list (list SegR)) :
  is_chain l c -> Forall2 is_chain c CH -> is_chain l (concat CH).
Proof. unfold is_chain at 1 3. intros H HF. exact (chain_flatten_from _ _ (0, c) H CH HF). Qed.

Lemma Permutation_concat {A} (m m' : list (list A)) : Permutation m m' -> Permutation (concat m) (concat m').
Proof.
  induction 1 as [| x m m' H IH | x y m | m m' m'' H1 IH1 H2 IH2]; cbn [concat].
  - apply Permutation_refl.
  - apply Permutation_app_head. exact IH.
  - rewrite !app_assoc. apply Permutation_app_tail. apply Permutation_app_comm.
  - exact (perm_trans IH1 IH2).
Qed.
Lemma Forall2_perm {A B} (P : A -> B -> Prop) (l l' : list A) : Permutation l l' ->
  forall m, Forall2 P l m -> exists m', Permutation m m' /\ Forall2 P l' m'.
Proof.
  induction 1 as [| x l l' H IH | x y l | l l' l'' H1 IH1 H2 IH2]; intros m HF.
  - inversion HF; subst. exists []. split; [apply Permutation_refl | constructor].
  - inversion HF as [|? b ? m0 Hb HF']; subst. destruct (IH m0 HF') as (m' & Hp & HF'').
    exists (b :: m'). split; [apply perm_skip; exact Hp | constructor; assumption].
  - inversion HF as [|? b ? m0 Hb HF']; subst. inversion HF' as [|? b' ? m1 Hb' HF'']; subst.
    exists (b' :: b :: m1). split; [apply perm_swap | repeat constructor; assumption].
  - destruct (IH1 m HF) as (m' & Hp & HF'). destruct (IH2 m' HF') as (m'' & Hp' & HF'').
    exists m''. split; [exact (perm_trans Hp Hp') | exact HF''].
Qed.

(* every segment is the chain of its pieces PS (up to order), every piece the chain of its own
   pieces: every segment is the chain of the pieces of its pieces *)
Lemma refine_concat (ls : list SegR) (cs : list (list SegR)) : Forall2 is_chain ls cs ->
  forall CH, Forall2 is_chain (concat cs) CH ->
  exists chains, Forall2 is_chain ls chains /\ concat CH = concat chains.
Proof.
  induction 1 as [|l c ls cs Hc HF IH]; intros CH HCH.
  - cbn [concat] in HCH. inversion HCH; subst. exists []. split; [constructor | reflexivity].
  - cbn [concat] in HCH. apply Forall2_app_inv_l in HCH. destruct HCH as (CH1 & CH2 & H1 & H2 & ->).
    destruct (IH CH2 H2) as (chains & HF' & E).
    exists (concat CH1 :: chains). split; [constructor; [exact (chain_flatten l c CH1 Hc H1) | exact HF']|].
    rewrite concat_app. cbn [concat]. rewrite E. reflexivity.
Qed.
Lemma refine_chains (ls PS : list SegR) (cs CH : list (list SegR)) :
  Forall2 is_chain ls cs -> Permutation PS (concat cs) -> Forall2 is_chain PS CH ->
  exists chains, Forall2 is_chain ls chains /\ Permutation (concat CH) (concat chains).
Proof.
  intros Hcs Hp HCH. destruct (Forall2_perm _ _ _ Hp CH HCH) as (CH' & Hp' & HCH').
  destruct (refine_concat ls cs Hcs CH' HCH') as (chains & HF & E).
  exists chains. split; [exact HF|]. rewrite <- E. apply Permutation_concat. exact Hp'.
Qed.

(* ------------------------------------------------------------ lineIntersect *)
(* x-range first, then the y-range of the result *)
Definition clip2 (a : Box2 ROps) (l : SegR) : option SegR :=
  match clipR l (vx (b2min a)) (vx (b2max a)) with
  | None => None
  | Some x => clipY x (vy (b2min a)) (vy (b2max a))
  end.

Lemma Rmin_Rmax_same (z a : R) : Rmin (Rmax z a) a = a.
Proof. apply Rmin_right. apply Rmax_r. Qed.

(* clipping a horizontal line leaves it at its level *)
Lemma clip_horizontal_level (l S : SegR) (mn mx : R) : vy (fst l) = vy (snd l) -> clipR l mn mx = Some S ->
  vy (fst S) = vy (fst l) /\ vy (snd S) = vy (fst l).
Proof.
  destruct l as [[ax ay] [bx by_]]; cbn [fst snd vx vy]. intros E. subst by_.
  unfold line_clip; cbn [fst snd vx vy]. unops.
  destruct (Reqb ax bx); [destruct (_ || _); [discriminate|]; intros H; inversion H; subst S; split; reflexivity|].
  destruct (_ || _); [discriminate|]. intros H; inversion H; subst S; clear H. cbn [fst snd].
  unfold idn. rewrite (Rmin_lt ay ay), (Rmax_lt ay ay) by lra.
  split; match goal with |- context [negb ?b] => destruct b end; cbn [negb vy]; try reflexivity; apply Rmin_Rmax_same.
Qed.

(* the checks in front of the clipping (lines along the top / right edge, the early exit for a line
   inside the box) do not change the result *)
Lemma lineR_clip2 (a : Box2 ROps) (l : SegR) : lineR a l = clip2 a l.
Proof.
  unfold line_intersect, clip2.
  set (mnx := vx (b2min a)). set (mxx := vx (b2max a)). set (mny := vy (b2min a)). set (mxy := vy (b2max a)).
  destruct l as [[ax ay] [bx by_]]. unfold v2sub; cbn [fst snd vx vy]. unops.
  destruct (Reqb (by_ - ay) 0 && Reqb ay mxy) eqn:F1.
  { (* a horizontal line along the top edge *)
    apply andb_true_iff in F1. destruct F1 as [E1 E2]. apply Reqb_true in E1, E2.
    destruct (clipR (mkV2 ax ay, mkV2 bx by_) mnx mxx) as [S|] eqn:EX; [|reflexivity].
    assert (Hh : vy (fst (mkV2 ax ay : V, mkV2 bx by_ : V)) = vy (snd (mkV2 ax ay : V, mkV2 bx by_ : V))) by (cbn [fst snd vy]; lra).
    destruct (clip_horizontal_level _ S mnx mxx Hh EX) as [L1 L2]. cbn [fst snd vy] in L1, L2.
    unfold clipY. destruct S as [[sx sy] [tx ty]]. unfold swap_xy in *. cbn [fst snd vx vy] in *.
    rewrite clip_vertical by (cbn [fst snd vx vy]; lra). cbn [fst snd vx vy].
    rewrite (Rleb_t mxy sy) by lra. rewrite orb_true_r. reflexivity. }
  destruct (Reqb (bx - ax) 0 && Reqb ax mxx) eqn:F2.
  { (* a vertical line along the right edge *)
    apply andb_true_iff in F2. destruct F2 as [E1 E2]. apply Reqb_true in E1, E2.
    rewrite clip_vertical by (cbn [fst snd vx]; lra). cbn [fst snd vx].
    rewrite (Rleb_t mxx ax) by lra. rewrite orb_true_r. reflexivity. }
  destruct (box2_contains a (mkV2 ax ay) && box2_contains a (mkV2 bx by_)) eqn:F3.
  { (* the early exit *)
    apply andb_true_iff in F3. destruct F3 as [CA CB]. unfold box2_contains in CA, CB. cbn [vx vy] in CA, CB. unops.
    fold mnx mxx mny mxy in CA, CB.
    repeat (apply andb_true_iff in CA; destruct CA as [CA ?]). repeat (apply andb_true_iff in CB; destruct CB as [CB ?]).
    repeat match goal with H : Rleb _ _ = true |- _ => apply Rleb_true in H end.
    assert (N1 : ~ (ay = by_ /\ ay = mxy)).
    { intros [? ?]. apply andb_false_iff in F1. destruct F1 as [F|F]; apply Reqb_false in F; lra. }
    assert (N2 : ~ (ax = bx /\ ax = mxx)).
    { intros [? ?]. apply andb_false_iff in F2. destruct F2 as [F|F]; apply Reqb_false in F; lra. }
    rewrite clip_inside by (cbn [fst snd vx]; first [lra | exact N2]).
    unfold clipY, swap_xy. cbn [fst snd vx vy]. rewrite clip_inside by (cbn [fst snd vx]; first [lra | exact N1]).
    reflexivity. }
  destruct (clipR (mkV2 ax ay, mkV2 bx by_) mnx mxx) as [S|]; [|reflexivity].
  unfold clipY. destruct (clipR (swap_xy S) mny mxy); reflexivity.
Qed.

(* ------------------------------------------------------------ the four quadrants of a box *)
Definition good (a : Box2 ROps) : Prop := vx (b2min a) < vx (b2max a) /\ vy (b2min a) < vy (b2max a).
(* the line lies in the (closed) box and does not run along its top or right edge *)
Definition owned (a : Box2 ROps) (l : SegR) : Prop :=
  own1 (vx (b2min a)) (vx (b2max a)) (vx (fst l)) (vx (snd l)) /\
  own1 (vy (b2min a)) (vy (b2max a)) (vy (fst l)) (vy (snd l)).

Lemma half_val : @half ROps = / 2.
Proof. unfold half, two. unops. field. Qed.

Lemma perm_4 {A} (a b c d : list A) : Permutation (a ++ b ++ c ++ d) ((a ++ c) ++ (b ++ d)).
Proof.
  rewrite <- app_assoc. apply Permutation_app_head.
  rewrite !app_assoc. apply Permutation_app_tail. apply Permutation_app_comm.
Qed.

Lemma split2_some (l : SegR) : ~ split2 l None None.
Proof. intros [HL HR | HL HR | C s Hb HL HR | C s Hb HL HR]; discriminate. Qed.

Definition ccx (a : Box2 ROps) : R := vx (b2min a) + (vx (b2max a) - vx (b2min a)) * / 2.
Definition ccy (a : Box2 ROps) : R := vy (b2min a) + (vy (b2max a) - vy (b2min a)) * / 2.
Lemma quad0_eq a : quad0 a = mkBox2 (mkV2 (vx (b2min a)) (vy (b2min a))) (mkV2 (ccx a) (ccy a)).
Proof. unfold quad0, box2_size, v2add, v2muls, v2sub, ccx, ccy. rewrite half_val. destruct a as [[? ?] [? ?]]. reflexivity. Qed.
Lemma quad1_eq a : quad1 a = mkBox2 (mkV2 (ccx a) (vy (b2min a))) (mkV2 (vx (b2max a)) (ccy a)).
Proof. unfold quad1, box2_size, v2add, v2muls, v2sub, ccx, ccy. rewrite half_val. destruct a as [[? ?] [? ?]]. reflexivity. Qed.
Lemma quad2_eq a : quad2 a = mkBox2 (mkV2 (vx (b2min a)) (ccy a)) (mkV2 (ccx a) (vy (b2max a))).
Proof. unfold quad2, box2_size, v2add, v2muls, v2sub, ccx, ccy. rewrite half_val. destruct a as [[? ?] [? ?]]. reflexivity. Qed.
Lemma quad3_eq a : quad3 a = mkBox2 (mkV2 (ccx a) (ccy a)) (mkV2 (vx (b2max a)) (vy (b2max a))).
Proof. unfold quad3, box2_size, v2add, v2muls, v2sub, ccx, ccy. rewrite half_val. destruct a as [[? ?] [? ?]]. reflexivity. Qed.

Section Quad.
  Variable a : Box2 ROps.
  Variable l : SegR.
  Hypothesis Hg : good a.
  Hypothesis Ho : owned a l.
  Let mnx := vx (b2min a). Let mxx := vx (b2max a). Let mny := vy (b2min a). Let mxy := vy (b2max a).
  Let cx := ccx a. Let cy := ccy a.

  Lemma cx_in : mnx < cx < mxx. Proof. destruct Hg. unfold cx, ccx, mnx, mxx. lra. Qed.
  Lemma cy_in : mny < cy < mxy. Proof. destruct Hg. unfold cy, ccy, mny, mxy. lra. Qed.

  (* (7) FULL: the pieces the four quadrants return for a line owned by the box are a chain of the
     line - none lost, none doubled, joints on the line - and each is owned by its quadrant *)
  Theorem quad_split :
    exists ch, is_chain l ch /\
      Permutation (o2l (lineR (quad0 a) l) ++ o2l (lineR (quad1 a) l) ++ o2l (lineR (quad2 a) l) ++ o2l (lineR (quad3 a) l)) ch /\
      (forall P, lineR (quad0 a) l = Some P -> owned (quad0 a) P) /\
      (forall P, lineR (quad1 a) l = Some P -> owned (quad1 a) P) /\
      (forall P, lineR (quad2 a) l = Some P -> owned (quad2 a) P) /\
      (forall P, lineR (quad3 a) l = Some P -> owned (quad3 a) P).
  Proof.
    rewrite !lineR_clip2. rewrite quad0_eq, quad1_eq, quad2_eq, quad3_eq. unfold clip2, owned. cbn [b2min b2max vx vy].
    fold mnx mxx mny mxy cx cy.
    destruct Ho as [Hox Hoy]. fold mnx mxx in Hox. fold mny mxy in Hoy.
    destruct (clip_split l mnx cx mxx Hox cx_in) as (H2 & HL & HR).
    pose proof (split2_own_y l _ _ mny mxy H2 Hoy) as HY.
    pose proof (split2_chain l _ _ H2) as (chX & HcX & HpX).
    destruct (clipR l mnx cx) as [S1|] eqn:E1; destruct (clipR l cx mxx) as [S2|] eqn:E2.
    - (* pieces in both halves *)
      specialize (HL S1 eq_refl). specialize (HR S2 eq_refl).
      destruct (clipY_split S1 mny cy mxy (HY S1 (or_introl eq_refl)) cy_in) as (Y1 & Y1L & Y1R).
      destruct (clipY_split S2 mny cy mxy (HY S2 (or_intror eq_refl)) cy_in) as (Y2 & Y2L & Y2R).
      destruct (split2_chain S1 _ _ Y1) as (ch1 & Hc1 & Hp1). destruct (split2_chain S2 _ _ Y2) as (ch2 & Hc2 & Hp2).
      destruct (refine_chains [l] [S1; S2] [chX] [ch1; ch2]) as (chains & HF & Hp).
      { constructor; [exact HcX | constructor]. } { cbn [concat]. rewrite app_nil_r. exact HpX. }
      { constructor; [exact Hc1 | constructor; [exact Hc2 | constructor]]. }
      inversion HF as [|? ch ? chs Hch HF']; subst. inversion HF'; subst. cbn [concat] in Hp. rewrite !app_nil_r in Hp.
      exists ch. split; [exact Hch|]. split.
      { eapply perm_trans; [apply perm_4|]. eapply perm_trans; [|exact Hp]. apply Permutation_app; assumption. }
      refine (conj _ (conj _ (conj _ _))); intros P HP; (split; [|]).
      all: try (exact (split2_own_x S1 _ _ mnx cx Y1 HL P (or_introl HP))).
      all: try (exact (split2_own_x S1 _ _ mnx cx Y1 HL P (or_intror HP))).
      all: try (exact (split2_own_x S2 _ _ cx mxx Y2 HR P (or_introl HP))).
      all: try (exact (split2_own_x S2 _ _ cx mxx Y2 HR P (or_intror HP))).
      all: first [exact (Y1L P HP) | exact (Y1R P HP) | exact (Y2L P HP) | exact (Y2R P HP)].
    - (* left half only *)
      specialize (HL S1 eq_refl).
      destruct (clipY_split S1 mny cy mxy (HY S1 (or_introl eq_refl)) cy_in) as (Y1 & Y1L & Y1R).
      destruct (split2_chain S1 _ _ Y1) as (ch1 & Hc1 & Hp1).
      destruct (refine_chains [l] [S1] [chX] [ch1]) as (chains & HF & Hp).
      { constructor; [exact HcX | constructor]. } { cbn [concat]. rewrite app_nil_r. exact HpX. }
      { constructor; [exact Hc1 | constructor]. }
      inversion HF as [|? ch ? chs Hch HF']; subst. inversion HF'; subst. cbn [concat] in Hp. rewrite !app_nil_r in Hp.
      exists ch. split; [exact Hch|]. split.
      { cbn [o2l app]. rewrite ?app_nil_r. eapply perm_trans; [|exact Hp]. exact Hp1. }
      refine (conj _ (conj _ (conj _ _))); intros P HP; try discriminate; (split; [|]).
      all: try (exact (split2_own_x S1 _ _ mnx cx Y1 HL P (or_introl HP))).
      all: try (exact (split2_own_x S1 _ _ mnx cx Y1 HL P (or_intror HP))).
      all: first [exact (Y1L P HP) | exact (Y1R P HP)].
    - (* right half only *)
      specialize (HR S2 eq_refl).
      destruct (clipY_split S2 mny cy mxy (HY S2 (or_intror eq_refl)) cy_in) as (Y2 & Y2L & Y2R).
      destruct (split2_chain S2 _ _ Y2) as (ch2 & Hc2 & Hp2).
      destruct (refine_chains [l] [S2] [chX] [ch2]) as (chains & HF & Hp).
      { constructor; [exact HcX | constructor]. } { cbn [concat]. rewrite app_nil_r. exact HpX. }
      { constructor; [exact Hc2 | constructor]. }
      inversion HF as [|? ch ? chs Hch HF']; subst. inversion HF'; subst. cbn [concat] in Hp. rewrite !app_nil_r in Hp.
      exists ch. split; [exact Hch|]. split.
      { cbn [o2l app]. rewrite ?app_nil_r. eapply perm_trans; [|exact Hp]. exact Hp2. }
      refine (conj _ (conj _ (conj _ _))); intros P HP; try discriminate; (split; [|]).
      all: try (exact (split2_own_x S2 _ _ cx mxx Y2 HR P (or_introl HP))).
      all: try (exact (split2_own_x S2 _ _ cx mxx Y2 HR P (or_intror HP))).
      all: first [exact (Y2L P HP) | exact (Y2R P HP)].
    - exfalso. exact (split2_some l H2).
  Qed.
End Quad.

(* ------------------------------------------------------------ qtBuild *)
Notation buildR := (@qt_build ROps idn).
Notation filterR := (@line_filter ROps idn).

Definition contained (a : Box2 ROps) (l : SegR) : Prop :=
  (vx (b2min a) <= vx (fst l) <= vx (b2max a) /\ vx (b2min a) <= vx (snd l) <= vx (b2max a)) /\
  (vy (b2min a) <= vy (fst l) <= vy (b2max a) /\ vy (b2min a) <= vy (snd l) <= vy (b2max a)).
Lemma owned_contained a l : owned a l -> contained a l.
Proof. intros [(H1 & H2 & _) (H3 & H4 & _)]. split; split; assumption. Qed.

Definition square (a : Box2 ROps) : Prop := vx (b2max a) - vx (b2min a) = vy (b2max a) - vy (b2min a).

Lemma filter_cons (q : Box2 ROps) (l : SegR) (ls : list SegR) : filterR q (l :: ls) = o2l (lineR q l) ++ filterR q ls.
Proof. unfold line_filter. cbn [flat_map]. destruct (lineR q l); reflexivity. Qed.

Lemma perm_swap_mid {A} (x y z : list A) : Permutation (x ++ y ++ z) (y ++ x ++ z).
Proof. rewrite !app_assoc. apply Permutation_app_tail. apply Permutation_app_comm. Qed.
Lemma perm_8 {A} (a a' b b' c c' d d' : list A) :
  Permutation ((a ++ a') ++ (b ++ b') ++ (c ++ c') ++ (d ++ d')) ((a ++ b ++ c ++ d) ++ (a' ++ b' ++ c' ++ d')).
Proof.
  rewrite <- !app_assoc. apply Permutation_app_head.
  eapply perm_trans; [apply perm_swap_mid|]. apply Permutation_app_head.
  (* a' ++ b' ++ c ++ c' ++ d ++ d'  ~  c ++ d ++ a' ++ b' ++ c' ++ d' *)
  eapply perm_trans; [apply Permutation_app_head; apply perm_swap_mid|].
  eapply perm_trans; [apply perm_swap_mid|]. apply Permutation_app_head.
  (* a' ++ b' ++ c' ++ d ++ d' ~ d ++ a' ++ b' ++ c' ++ d' *)
  eapply perm_trans; [apply Permutation_app_head; apply Permutation_app_head; apply perm_swap_mid|].
  eapply perm_trans; [apply Permutation_app_head; apply perm_swap_mid|].
  apply perm_swap_mid.
Qed.

(* one level: every segment owned by the box is the chain of what the four quadrants return *)
Lemma filter_split (a : Box2 ROps) (ls : list SegR) : good a -> Forall (owned a) ls ->
  (exists cs, Forall2 is_chain ls cs /\
     Permutation (filterR (quad0 a) ls ++ filterR (quad1 a) ls ++ filterR (quad2 a) ls ++ filterR (quad3 a) ls) (concat cs)) /\
  Forall (owned (quad0 a)) (filterR (quad0 a) ls) /\ Forall (owned (quad1 a)) (filterR (quad1 a) ls) /\
  Forall (owned (quad2 a)) (filterR (quad2 a) ls) /\ Forall (owned (quad3 a)) (filterR (quad3 a) ls).
Proof.
  intros Hg HF. induction HF as [|l ls Hl HF IH].
  - split; [exists []; split; [constructor | apply Permutation_refl]|]. repeat split; constructor.
  - destruct IH as ((cs & Hcs & Hp) & O0 & O1 & O2 & O3).
    destruct (quad_split a l Hg Hl) as (ch & Hch & Hpl & Q0 & Q1 & Q2 & Q3).
    rewrite !filter_cons. split.
    + exists (ch :: cs). split; [constructor; assumption|]. cbn [concat].
      eapply perm_trans; [apply perm_8|]. apply Permutation_app; assumption.
    + refine (conj _ (conj _ (conj _ _))); apply Forall_app; split; try assumption.
      * destruct (lineR (quad0 a) l) as [P|]; [constructor; [apply Q0; reflexivity | constructor] | constructor].
      * destruct (lineR (quad1 a) l) as [P|]; [constructor; [apply Q1; reflexivity | constructor] | constructor].
      * destruct (lineR (quad2 a) l) as [P|]; [constructor; [apply Q2; reflexivity | constructor] | constructor].
      * destruct (lineR (quad3 a) l) as [P|]; [constructor; [apply Q3; reflexivity | constructor] | constructor].
Qed.

Lemma self_chains (ls : list SegR) : Forall2 is_chain ls (map (fun l => [l]) ls) /\ concat (map (fun l => [l]) ls) = ls.
Proof.
  induction ls as [|l ls [IH1 IH2]]; [split; [constructor | reflexivity]|].
  split; [constructor; [apply is_chain_self | exact IH1] | cbn [map concat app]; rewrite IH2; reflexivity].
Qed.

(* quadrants of a good (square) box are good (square) and lie in it *)
Lemma quads_good (a : Box2 ROps) : good a -> good (quad0 a) /\ good (quad1 a) /\ good (quad2 a) /\ good (quad3 a).
Proof.
  intros Hg. rewrite quad0_eq, quad1_eq, quad2_eq, quad3_eq. unfold good, ccx, ccy in *. cbn [b2min b2max vx vy]. lra.
Qed.
Lemma quads_square (a : Box2 ROps) : square a -> square (quad0 a) /\ square (quad1 a) /\ square (quad2 a) /\ square (quad3 a).
Proof.
  intros Hs. rewrite quad0_eq, quad1_eq, quad2_eq, quad3_eq. unfold square, ccx, ccy in *. cbn [b2min b2max vx vy]. lra.
Qed.
Lemma center_eq (a : Box2 ROps) : box2_center a = mkV2 (ccx a) (ccy a).
Proof. unfold box2_center, box2_size, v2add, v2muls, v2sub, ccx, ccy. rewrite half_val. destruct a as [[? ?] [? ?]]. reflexivity. Qed.

(* a segment in the closed square box lies in the square (centre, half side) minBoxDist2 measures *)
Lemma contained_in_sq (a : Box2 ROps) (l : SegR) : good a -> square a -> contained a l ->
  seg_all (in_sq (box2_center a) (@half ROps * (vx (b2max a) - vx (b2min a)))) l.
Proof.
  intros [Hg1 Hg2] Hs [[H1 H2] [H3 H4]]. rewrite center_eq, half_val. unfold square in Hs.
  unfold seg_all, in_sq, ccx, ccy. cbn [vx vy]. unops. repeat split; apply Rabs_le; lra.
Qed.

Lemma contained_quad (a : Box2 ROps) (l : SegR) : good a ->
  (contained (quad0 a) l \/ contained (quad1 a) l \/ contained (quad2 a) l \/ contained (quad3 a) l) -> contained a l.
Proof.
  intros [Hg1 Hg2]. rewrite quad0_eq, quad1_eq, quad2_eq, quad3_eq. unfold contained, ccx, ccy. cbn [b2min b2max vx vy].
  intros [H|[H|[H|H]]]; destruct H as [[? ?] [? ?]]; repeat split; lra.
Qed.

Definition clipped_at (a : Box2 ROps) (ls : list SegR) (t : qt ROps SegR) : Prop :=
  (exists chains, Forall2 is_chain ls chains /\ Permutation (pieces t) (concat chains)) /\
  Forall (contained a) (pieces t) /\ ray_ok t /\ (square a -> box_ok t).

Lemma leaf_clipped (a : Box2 ROps) (ls : list SegR) : good a -> Forall (owned a) ls ->
  clipped_at a ls (QLeaf a (box2_center a) (@half ROps * (vx (b2max a) - vx (b2min a))) ls).
Proof.
  intros Hg HF. unfold clipped_at. cbn [pieces ray_ok box_ok].
  assert (HC : Forall (contained a) ls) by (eapply Forall_impl; [|exact HF]; apply owned_contained).
  split; [|split; [exact HC | split; [exact I|]]].
  - destruct (self_chains ls) as [H1 H2]. exists (map (fun l => [l]) ls). split; [exact H1 | rewrite H2; apply Permutation_refl].
  - intros Hs. split; [rewrite half_val; destruct Hg; unops; lra|].
    eapply Forall_impl; [|exact HC]. intros l Hl. apply contained_in_sq; assumption.
Qed.

(* (7) FULL, all levels: qtBuild yields a clipped family for EVERY list of segments owned by the box *)
Theorem qt_build_clipped : forall (fuel : nat) (a : Box2 ROps) (ls : list SegR), good a -> Forall (owned a) ls ->
  clipped_at a ls (buildR fuel a ls).
Proof.
  induction fuel as [|f IH]; intros a ls Hg HF.
  - destruct ls as [|l1 [|l2 ls']]; unfold qt_build; cbn [qt_build_with].
    + unfold clipped_at. cbn [pieces ray_ok box_ok]. split; [exists []; split; [constructor | apply Permutation_refl]|]. repeat split; constructor.
    + apply leaf_clipped; assumption.
    + apply leaf_clipped; assumption.
  - destruct ls as [|l1 [|l2 ls']]; unfold qt_build; cbn [qt_build_with].
    + unfold clipped_at. cbn [pieces ray_ok box_ok]. split; [exists []; split; [constructor | apply Permutation_refl]|]. repeat split; constructor.
    + apply leaf_clipped; assumption.
    + set (ls := l1 :: l2 :: ls') in *.
      destruct (filter_split a ls Hg HF) as ((cs & Hcs & Hpc) & O0 & O1 & O2 & O3).
      destruct (quads_good a Hg) as (G0 & G1 & G2 & G3).
      fold (buildR f (quad0 a) (filterR (quad0 a) ls)). fold (buildR f (quad1 a) (filterR (quad1 a) ls)).
      fold (buildR f (quad2 a) (filterR (quad2 a) ls)). fold (buildR f (quad3 a) (filterR (quad3 a) ls)).
      destruct (IH _ _ G0 O0) as ((CH0 & F0 & P0) & C0 & R0 & B0).
      destruct (IH _ _ G1 O1) as ((CH1 & F1 & P1) & C1 & R1 & B1).
      destruct (IH _ _ G2 O2) as ((CH2 & F2 & P2) & C2 & R2 & B2).
      destruct (IH _ _ G3 O3) as ((CH3 & F3 & P3) & C3 & R3 & B3).
      set (t0 := buildR f (quad0 a) (filterR (quad0 a) ls)) in *. set (t1 := buildR f (quad1 a) (filterR (quad1 a) ls)) in *.
      set (t2 := buildR f (quad2 a) (filterR (quad2 a) ls)) in *. set (t3 := buildR f (quad3 a) (filterR (quad3 a) ls)) in *.
      assert (HC : Forall (contained a) (pieces t0 ++ pieces t1 ++ pieces t2 ++ pieces t3)).
      { repeat (apply Forall_app; split).
        - eapply Forall_impl; [|exact C0]. intros l Hl. apply (contained_quad a l Hg). tauto.
        - eapply Forall_impl; [|exact C1]. intros l Hl. apply (contained_quad a l Hg). tauto.
        - eapply Forall_impl; [|exact C2]. intros l Hl. apply (contained_quad a l Hg). tauto.
        - eapply Forall_impl; [|exact C3]. intros l Hl. apply (contained_quad a l Hg). tauto. }
      unfold clipped_at. cbn [pieces]. split; [|split; [exact HC | split]].
      * destruct (refine_chains ls _ cs (CH0 ++ CH1 ++ CH2 ++ CH3) Hcs Hpc) as (chains & HFc & Hp).
        { repeat (apply Forall2_app; [assumption|]). assumption. }
        exists chains. split; [exact HFc|]. eapply perm_trans; [|exact Hp]. rewrite !concat_app.
        repeat (apply Permutation_app; [assumption|]). assumption.
      * cbn [ray_ok]. rewrite center_eq. cbn [vx vy].
        refine (conj _ (conj _ (conj _ (conj _ (conj R0 (conj R1 (conj R2 R3))))))).
        -- eapply Forall_impl; [|exact C0]. intros l. rewrite quad0_eq. unfold contained, seg_all. cbn [b2min b2max vx vy]. tauto.
        -- eapply Forall_impl; [|exact C1]. intros l. rewrite quad1_eq. unfold contained, seg_all. cbn [b2min b2max vx vy]. tauto.
        -- eapply Forall_impl; [|exact C2]. intros l. rewrite quad2_eq. unfold contained, seg_all. cbn [b2min b2max vx vy]. tauto.
        -- eapply Forall_impl; [|exact C3]. intros l. rewrite quad3_eq. unfold contained, seg_all. cbn [b2min b2max vx vy]. tauto.
      * intros Hs. destruct (quads_square a Hs) as (S0 & S1 & S2 & S3). cbn [box_ok pieces].
        split; [rewrite half_val; destruct Hg; unops; lra|].
        split; [eapply Forall_impl; [|exact HC]; intros l Hl; apply contained_in_sq; assumption|].
        auto.
Qed.

(* ------------------------------------------------------------ Mesh2D: the root box *)
Definition inp (b : Box2 ROps) (q : V) : Prop :=
  vx (b2min b) <= vx q <= vx (b2max b) /\ vy (b2min b) <= vy q <= vy (b2max b).

Lemma include_grows (b : Box2 ROps) (v q : V) : inp b q -> inp (box2_include b v) q.
Proof.
  unfold inp, box2_include, v2min, v2max; cbn [b2min b2max vx vy]. unops. intros [[? ?] [? ?]].
  pose proof (Rmin_l (vx (b2min b)) (vx v)). pose proof (Rmin_l (vy (b2min b)) (vy v)).
  pose proof (Rmax_l (vx (b2max b)) (vx v)). pose proof (Rmax_l (vy (b2max b)) (vy v)). repeat split; lra.
Qed.
Lemma include_has (b : Box2 ROps) (v : V) : vx (b2min b) <= vx (b2max b) -> vy (b2min b) <= vy (b2max b) -> inp (box2_include b v) v.
Proof.
  unfold inp, box2_include, v2min, v2max; cbn [b2min b2max vx vy]. unops. intros.
  pose proof (Rmin_r (vx (b2min b)) (vx v)). pose proof (Rmin_r (vy (b2min b)) (vy v)).
  pose proof (Rmax_r (vx (b2max b)) (vx v)). pose proof (Rmax_r (vy (b2max b)) (vy v)). repeat split; lra.
Qed.
Lemma include_ordered (b : Box2 ROps) (v : V) : vx (b2min b) <= vx (b2max b) -> vy (b2min b) <= vy (b2max b) ->
  vx (b2min (box2_include b v)) <= vx (b2max (box2_include b v)) /\ vy (b2min (box2_include b v)) <= vy (b2max (box2_include b v)).
Proof.
  unfold box2_include, v2min, v2max; cbn [b2min b2max vx vy]. unops. intros.
  pose proof (Rmin_l (vx (b2min b)) (vx v)). pose proof (Rmin_l (vy (b2min b)) (vy v)).
  pose proof (Rmax_l (vx (b2max b)) (vx v)). pose proof (Rmax_l (vy (b2max b)) (vy v)). split; lra.
Qed.

Definition bbstep (bb : Box2 ROps) (e : SegR) : Box2 ROps := box2_include (box2_include bb (fst e)) (snd e).
Lemma fold_bb (ls : list SegR) : forall b : Box2 ROps,
  vx (b2min b) <= vx (b2max b) -> vy (b2min b) <= vy (b2max b) ->
  (forall q, inp b q -> inp (fold_left bbstep ls b) q) /\
  Forall (fun l => inp (fold_left bbstep ls b) (fst l) /\ inp (fold_left bbstep ls b) (snd l)) ls.
Proof.
  induction ls as [|l ls IH]; intros b Hx Hy; cbn [fold_left]; [split; [auto | constructor]|].
  destruct (include_ordered b (fst l) Hx Hy) as [Hx1 Hy1].
  destruct (include_ordered (box2_include b (fst l)) (snd l) Hx1 Hy1) as [Hx2 Hy2].
  destruct (IH (bbstep b l) Hx2 Hy2) as [G F]. split.
  - intros q Hq. apply G. unfold bbstep. apply include_grows, include_grows. exact Hq.
  - constructor; [|exact F]. split; apply G; unfold bbstep.
    + apply include_grows. apply include_has; assumption.
    + apply include_has; assumption.
Qed.

Lemma mesh_bb_contains (l0 : SegR) (ls : list SegR) :
  let bb := @mesh_bb ROps (l0 :: ls) in
  vx (b2min bb) <= vx (b2max bb) /\ vy (b2min bb) <= vy (b2max bb) /\
  Forall (fun l => inp bb (fst l) /\ inp bb (snd l)) (l0 :: ls).
Proof.
  intros bb. assert (E : bb = fold_left bbstep (l0 :: ls) (line_bb l0)) by reflexivity.
  set (b0 := @line_bb ROps l0) in *.
  assert (H0 : vx (b2min b0) <= vx (b2max b0) /\ vy (b2min b0) <= vy (b2max b0)).
  { unfold b0, line_bb. apply include_ordered; cbn [b2min b2max]; lra. }
  destruct H0 as [Hx Hy]. destruct (fold_bb (l0 :: ls) b0 Hx Hy) as [G F]. rewrite <- E in F.
  inversion F as [|? ? [[[H1 H2] [H3 H4]] _] _]; subst.
  split; [lra | split; [lra | exact F]].
Qed.

Lemma cst_101_100 : @cst ROps 101 100 = 101 / 100.
Proof. unfold cst. unops. cbn [ofZ ROps]. reflexivity. Qed.

(* the root box of Mesh2D is a proper square and owns every segment (strictly inside), as soon as
   the bounding box has a positive extent *)
Lemma root_box_ok (l0 : SegR) (ls : list SegR) :
  let bb := @mesh_bb ROps (l0 :: ls) in
  0 < Rmax (vx (b2max bb) - vx (b2min bb)) (vy (b2max bb) - vy (b2min bb)) ->
  good (qt_root_box (l0 :: ls)) /\ square (qt_root_box (l0 :: ls)) /\ Forall (owned (qt_root_box (l0 :: ls))) (l0 :: ls).
Proof.
  intros bb Hside. destruct (mesh_bb_contains l0 ls) as (Hx & Hy & HF). fold bb in Hx, Hy, HF.
  unfold qt_root_box. fold bb. rewrite cst_101_100.
  unfold box2_scale_about_center, newbox2, box2_center, box2_square, box2_size, v2maxcomp, v2add, v2sub, v2muls.
  cbn [b2min b2max vx vy]. rewrite half_val. unops.
  set (s := Rmax (vx (b2max bb) - vx (b2min bb)) (vy (b2max bb) - vy (b2min bb))) in *.
  assert (Hs1 : vx (b2max bb) - vx (b2min bb) <= s) by apply Rmax_l.
  assert (Hs2 : vy (b2max bb) - vy (b2min bb) <= s) by apply Rmax_r.
  split; [unfold good; cbn [b2min b2max vx vy]; lra|].
  split; [unfold square; cbn [b2min b2max vx vy]; lra|].
  eapply Forall_impl; [|exact HF]. intros l [[[? ?] [? ?]] [[? ?] [? ?]]].
  unfold owned, own1. cbn [b2min b2max vx vy]. repeat split; try lra; intros [? ?]; lra.
Qed.

(* a non-degenerate segment gives the bounding box a positive extent *)
Lemma nondeg_side (l0 : SegR) (ls : list SegR) : nondeg l0 ->
  let bb := @mesh_bb ROps (l0 :: ls) in
  0 < Rmax (vx (b2max bb) - vx (b2min bb)) (vy (b2max bb) - vy (b2min bb)).
Proof.
  intros Hn bb. destruct (mesh_bb_contains l0 ls) as (Hx & Hy & HF). fold bb in Hx, Hy, HF.
  inversion HF as [|? ? [[[? ?] [? ?]] [[? ?] [? ?]]] _]; subst.
  destruct l0 as [[ax ay] [bx by_]]. unfold nondeg in Hn. cbn [fst snd vx vy] in *.
  destruct (Req_dec ax bx) as [E|E].
  - assert (ay <> by_) by (intros ->; subst; nra).
    eapply Rlt_le_trans; [|apply Rmax_r]. destruct (Rlt_dec ay by_); lra.
  - eapply Rlt_le_trans; [|apply Rmax_l]. destruct (Rlt_dec ax bx); lra.
Qed.

(* ------------------------------------------------------------ Mesh2D: fast = slow for every polygon *)
Theorem mesh2d_well_clipped (n : nat) (ls : list SegR) : ls <> [] -> Forall nondeg ls ->
  well_clipped (@mesh2d ROps idn n ls) ls.
Proof.
  intros Hne Hn. destruct ls as [|l0 ls]; [contradiction|].
  inversion Hn as [|? ? Hn0 _]; subst.
  destruct (root_box_ok l0 ls (nondeg_side l0 ls Hn0)) as (Hg & Hs & Ho).
  destruct (qt_build_clipped n _ _ Hg Ho) as ((chains & HF & Hp) & _ & Hr & Hb).
  exists chains. repeat split; try assumption. exact (Hb Hs).
Qed.

Theorem mesh2d_winding_clipped (n : nat) (l0 : SegR) (ls : list SegR) :
  (let bb := @mesh_bb ROps (l0 :: ls) in 0 < Rmax (vx (b2max bb) - vx (b2min bb)) (vy (b2max bb) - vy (b2min bb))) ->
  winding_clipped (@mesh2d ROps idn n (l0 :: ls)) (l0 :: ls).
Proof.
  intros Hside. destruct (root_box_ok l0 ls Hside) as (Hg & Hs & Ho).
  destruct (qt_build_clipped n _ _ Hg Ho) as ((chains & HF & Hp) & _ & Hr & Hb).
  exists chains. repeat split; assumption.
Qed.

Theorem mesh2d_fast_eq_slow (n : nat) (ls : list SegR) : ls <> [] -> Forall nondeg ls -> forall p,
  eval_fast (qt_map new_line_info (@mesh2d ROps idn n ls)) p = eval_slow (convert_lines ls) p.
Proof. intros Hne Hn. apply fast_eq_slow. apply mesh2d_well_clipped; assumption. Qed.

Theorem mesh2d_winding_eq_slow (n : nat) (l0 : SegR) (ls : list SegR) :
  (let bb := @mesh_bb ROps (l0 :: ls) in 0 < Rmax (vx (b2max bb) - vx (b2min bb)) (vy (b2max bb) - vy (b2min bb))) ->
  forall p, qt_winding (qt_map new_line_info (@mesh2d ROps idn n (l0 :: ls))) p 0%Z = snd (slow_loop (convert_lines (l0 :: ls)) p).
Proof. intros H. exact (fast_winding_eq_slow _ _ (mesh2d_winding_clipped n l0 ls H)). Qed.
