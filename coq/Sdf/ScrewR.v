(* Theorems about Sdf/Screw.v at the real-number instance: SawTooth, the helical mapping of
   ScrewSDF3.Evaluate (periodicity, helix invariance, handedness, taper cone) and the reduction
   of mating to the thread profiles. *)
From Coq Require Import Reals ZArith Lra Lia List Bool.
From Sdfx Require Import Num.Ops.
From Sdfx Require Import Num.RInst.
From Sdfx Require Import Geo.Vec.
From Sdfx Require Import Sdf.Screw.
Import ListNotations.
Open Scope R_scope.

(* ------------------------------------------------------------------ floor *)

Lemma Int_part_unique r z : IZR z <= r < IZR z + 1 -> Int_part r = z.
Proof.
  intros [H1 H2]. unfold Int_part.
  assert (E : (z + 1)%Z = up r) by (apply up_tech; [exact H1 | rewrite plus_IZR; exact H2]).
  lia.
Qed.

Lemma Rfloor_add_Z x k : Rfloor (x + IZR k) = Rfloor x + IZR k.
Proof.
  unfold Rfloor. rewrite <- plus_IZR. f_equal. apply Int_part_unique.
  destruct (base_Int_part x) as [H1 H2]. rewrite plus_IZR. lra.
Qed.

(* ------------------------------------------------------------------ SawTooth *)

Lemma sawtooth_unfold x p :
  @sawtooth ROps x p = p * ((x + p / 2) / p - Rfloor ((x + p / 2) / p)) - p / 2.
Proof. unfold sawtooth, two; cbn. replace (1 + 1) with 2 by lra. reflexivity. Qed.

Lemma sawtooth_range : forall x p, 0 < p -> - p / 2 <= @sawtooth ROps x p < p / 2.
Proof.
  intros x p Hp. rewrite sawtooth_unfold.
  set (t := (x + p / 2) / p). destruct (Rfloor_spec t) as [H1 H2].
  assert (0 <= p * (t - Rfloor t)) by (apply Rmult_le_pos; lra).
  assert (p * (t - Rfloor t) < p * 1) by (apply Rmult_lt_compat_l; lra).
  lra.
Qed.

Lemma sawtooth_periodic : forall x p (k : Z), p <> 0 -> @sawtooth ROps (x + IZR k * p) p = @sawtooth ROps x p.
Proof.
  intros x p k Hp. rewrite !sawtooth_unfold.
  replace ((x + IZR k * p + p / 2) / p) with ((x + p / 2) / p + IZR k) by (field; exact Hp).
  rewrite Rfloor_add_Z. lra.
Qed.

(* the value is congruent to x modulo the period *)
Lemma sawtooth_congruent : forall x p, p <> 0 -> exists k : Z, @sawtooth ROps x p = x - IZR k * p.
Proof.
  intros x p Hp. rewrite sawtooth_unfold. exists (Int_part ((x + p / 2) / p)).
  unfold Rfloor. change (T ROps) with R. field. exact Hp.
Qed.

Lemma sawtooth_0 : forall p, 0 < p -> @sawtooth ROps 0 p = 0.
Proof.
  intros p Hp. rewrite sawtooth_unfold.
  replace ((0 + p / 2) / p) with (1 / 2) by (field; lra).
  assert (E : Rfloor (1 / 2) = 0).
  { unfold Rfloor. rewrite (Int_part_unique (1 / 2) 0); [reflexivity | lra]. }
  rewrite E. lra.
Qed.

(* ------------------------------------------------------------------ atan2 is the polar angle *)

Lemma sqrt_sq_pos x : 0 <= x -> sqrt (x * x) = x.
Proof. apply sqrt_square. Qed.

Lemma sqrt_1_t2_pos t : 0 < sqrt (1 + t²).
Proof. apply sqrt_lt_R0. unfold Rsqr. nra. Qed.

Lemma hyp_pos x y : 0 < x -> sqrt (x * x + y * y) = x * sqrt (1 + (y / x)²).
Proof.
  intros Hx. apply sqrt_lem_1.
  - nra.
  - apply Rmult_le_pos; [lra | apply Rlt_le, sqrt_1_t2_pos].
  - replace (x * sqrt (1 + (y / x)²) * (x * sqrt (1 + (y / x)²)))
      with (x * x * (sqrt (1 + (y / x)²) * sqrt (1 + (y / x)²))) by ring.
    rewrite sqrt_sqrt by (unfold Rsqr; nra). unfold Rsqr. field. lra.
Qed.

Lemma hyp_neg x y : x < 0 -> sqrt (x * x + y * y) = - x * sqrt (1 + (y / x)²).
Proof.
  intros Hx. replace (x * x + y * y) with ((- x) * (- x) + (- y) * (- y)) by ring.
  rewrite (hyp_pos (- x) (- y)) by lra.
  replace (- y / - x) with (y / x) by (field; lra). reflexivity.
Qed.

(* every point off the axis is (rho cos theta, rho sin theta) with theta = atan2 y x *)
Lemma atan2_polar : forall x y, (x <> 0 \/ y <> 0) ->
  x = sqrt (x * x + y * y) * cos (Ratan2 y x) /\ y = sqrt (x * x + y * y) * sin (Ratan2 y x).
Proof.
  intros x y Hne. unfold Ratan2.
  pose proof (sqrt_1_t2_pos (y / x)) as Hs.
  destruct (Rlt_dec 0 x) as [Hx | Hx].
  - rewrite hyp_pos by exact Hx. rewrite cos_atan, sin_atan. split; field; lra.
  - destruct (Rlt_dec x 0) as [Hx' | Hx'].
    + rewrite hyp_neg by exact Hx'. destruct (Rle_dec 0 y) as [Hy | Hy].
      * rewrite neg_cos, neg_sin, cos_atan, sin_atan. split; field; lra.
      * replace (atan (y / x) - PI) with (- (- atan (y / x) + PI)) by ring.
        rewrite cos_neg, sin_antisym, neg_cos, neg_sin, cos_neg, sin_antisym, cos_atan, sin_atan.
        split; field; lra.
    + assert (x = 0) by lra. subst x. destruct Hne as [Hne | Hne]; [lra|].
      replace (0 * 0 + y * y) with (y * y) by ring.
      destruct (Rlt_dec 0 y) as [Hy | Hy].
      * rewrite sqrt_square by lra. rewrite cos_PI2, sin_PI2. lra.
      * destruct (Rlt_dec y 0) as [Hy' | Hy']; [| lra].
        replace (y * y) with ((- y) * (- y)) by ring. rewrite sqrt_square by lra.
        replace (- PI / 2) with (- (PI / 2)) by lra.
        rewrite cos_neg, sin_antisym, cos_PI2, sin_PI2. lra.
Qed.

Lemma Ratan2_range : forall x y, - PI < Ratan2 y x <= PI.
Proof.
  intros x y. unfold Ratan2. pose proof PI_RGT_0. pose proof (atan_bound (y / x)) as Hb.
  destruct (Rlt_dec 0 x); [lra|].
  destruct (Rlt_dec x 0) as [Hx|].
  - destruct (Rle_dec 0 y) as [Hy | Hy].
    + assert (y / x <= 0).
      { unfold Rdiv. replace 0 with (y * 0) by ring. apply Rmult_le_compat_l; [exact Hy|].
        apply Rlt_le, Rinv_lt_0_compat; exact Hx. }
      assert (atan (y / x) <= 0).
      { destruct (Req_dec (y / x) 0) as [E | E]; [rewrite E, atan_0; lra|].
        rewrite <- atan_0. apply Rlt_le, atan_increasing. lra. }
      lra.
    + assert (0 < y / x).
      { unfold Rdiv. replace (y * / x) with ((- y) * (- / x)) by ring.
        apply Rmult_lt_0_compat; [lra|]. pose proof (Rinv_lt_0_compat x Hx). lra. }
      assert (0 < atan (y / x)) by (rewrite <- atan_0; apply atan_increasing; lra).
      lra.
  - destruct (Rlt_dec 0 y); [lra|]. destruct (Rlt_dec y 0); lra.
Qed.

(* cos and sin are 2 pi periodic over Z *)
Lemma cos_2kPI_nat (n : nat) : cos (2 * INR n * PI) = 1.
Proof. replace (2 * INR n * PI) with (0 + 2 * INR n * PI) by ring. rewrite cos_period. apply cos_0. Qed.
Lemma sin_2kPI_nat (n : nat) : sin (2 * INR n * PI) = 0.
Proof. replace (2 * INR n * PI) with (0 + 2 * INR n * PI) by ring. rewrite sin_period. apply sin_0. Qed.

Lemma cos_2kPI (k : Z) : cos (2 * IZR k * PI) = 1.
Proof.
  destruct (Z_le_gt_dec 0 k) as [Hk | Hk].
  - rewrite <- (Z2Nat.id k Hk), <- INR_IZR_INZ. apply cos_2kPI_nat.
  - replace (2 * IZR k * PI) with (- (2 * IZR (- k) * PI)) by (rewrite opp_IZR; ring).
    rewrite cos_neg. rewrite <- (Z2Nat.id (- k)) by lia. rewrite <- INR_IZR_INZ. apply cos_2kPI_nat.
Qed.
Lemma sin_2kPI (k : Z) : sin (2 * IZR k * PI) = 0.
Proof.
  destruct (Z_le_gt_dec 0 k) as [Hk | Hk].
  - rewrite <- (Z2Nat.id k Hk), <- INR_IZR_INZ. apply sin_2kPI_nat.
  - replace (2 * IZR k * PI) with (- (2 * IZR (- k) * PI)) by (rewrite opp_IZR; ring).
    rewrite sin_antisym. rewrite <- (Z2Nat.id (- k)) by lia. rewrite <- INR_IZR_INZ.
    rewrite sin_2kPI_nat. ring.
Qed.

(* two angles with the same cosine and sine differ by a whole number of turns *)
Lemma same_direction a b : cos a = cos b -> sin a = sin b -> exists k : Z, a = b + 2 * IZR k * PI.
Proof.
  intros Hc Hs.
  assert (S0 : sin (a - b) = 0).
  { rewrite sin_minus, Hc, Hs. ring. }
  assert (C1 : cos (a - b) = 1).
  { rewrite cos_minus, Hc, Hs. pose proof (sin2_cos2 b) as H. unfold Rsqr in H. lra. }
  destruct (sin_eq_0_0 _ S0) as [m Hm].
  destruct (Z.Even_or_Odd m) as [[j Hj] | [j Hj]].
  - exists j. subst m. rewrite mult_IZR in Hm. lra.
  - exfalso. subst m. rewrite plus_IZR, mult_IZR in Hm.
    replace (a - b) with (2 * IZR j * PI + PI) in C1 by lra.
    rewrite neg_cos, cos_2kPI in C1. lra.
Qed.

(* atan2 of the direction alpha is alpha up to whole turns *)
Lemma atan2_direction : forall rho alpha, 0 < rho ->
  exists k : Z, Ratan2 (rho * sin alpha) (rho * cos alpha) = alpha + 2 * IZR k * PI.
Proof.
  intros rho alpha Hrho.
  set (X := rho * cos alpha). set (Y := rho * sin alpha).
  assert (Hr : sqrt (X * X + Y * Y) = rho).
  { apply sqrt_lem_1; [| lra |].
    - unfold X, Y. nra.
    - unfold X, Y. pose proof (sin2_cos2 alpha) as H. unfold Rsqr in H. nra. }
  assert (Hne : X <> 0 \/ Y <> 0).
  { destruct (Req_dec X 0) as [EX | EX]; [| left; exact EX]. right. intros EY.
    unfold X in EX. unfold Y in EY. pose proof (sin2_cos2 alpha) as H. unfold Rsqr in H.
    assert (cos alpha = 0) by nra. assert (sin alpha = 0) by nra. nra. }
  destruct (atan2_polar X Y Hne) as [HX HY]. rewrite Hr in HX, HY.
  subst X Y. apply same_direction.
  - apply (Rmult_eq_reg_l rho); lra.
  - apply (Rmult_eq_reg_l rho); lra.
Qed.

(* ------------------------------------------------------------------ the helical mapping *)

Section Helix.
  (* an untapered screw of a given pitch and (signed) number of starts *)
  Variable pitch len : R.
  Variable starts : Z.
  Hypothesis Hpitch : 0 < pitch.

  Definition the_screw : ScrewSDF3 ROps := mkScrew pitch ((- pitch) * IZR starts) len 0.

  Lemma tau_R : @tau ROps = 2 * PI.
  Proof. unfold tau, two; cbn. lra. Qed.

  Lemma taper_test_0 : Reqb 0 0 = true.
  Proof. apply Reqb_true. reflexivity. Qed.

  Lemma rho_of_polar rho a : 0 <= rho -> sqrt (rho * cos a * (rho * cos a) + rho * sin a * (rho * sin a)) = rho.
  Proof.
    intros Hr. apply sqrt_lem_1; [| exact Hr |].
    - nra.
    - pose proof (sin2_cos2 a) as H. unfold Rsqr in H. nra.
  Qed.

  (* the mapping in cylindrical coordinates *)
  Lemma screw_map_cyl rho a z : 0 < rho ->
    exists k : Z,
      screw_map the_screw (mkV3 (rho * cos a) (rho * sin a) z)
      = mkV2 (@sawtooth ROps (z - IZR starts * pitch * a / (2 * PI) - IZR (k * starts) * pitch) pitch) rho.
  Proof.
    intros Hrho. destruct (atan2_direction rho a Hrho) as [k Hk]. exists k.
    unfold screw_map, the_screw. cbn [s_taper s_lead s_pitch wx wy wz].
    cbn [oeqb o0 ROps negb]. rewrite taper_test_0. cbn [negb].
    cbn [osqrt oadd omul oatan2 odiv ROps]. rewrite Hk, tau_R, rho_of_polar by lra.
    f_equal. f_equal. rewrite mult_IZR. pose proof PI_RGT_0. field. lra.
  Qed.

  (* THE HELIX: rotating by phi about the axis and advancing starts*pitch*phi/2pi leaves the
     profile-plane point unchanged (right-handed for starts > 0, left-handed for starts < 0) *)
  Theorem screw_map_helix_cyl : forall rho a z phi, 0 < rho ->
    screw_map the_screw (mkV3 (rho * cos (a + phi)) (rho * sin (a + phi)) (z + IZR starts * pitch * phi / (2 * PI)))
    = screw_map the_screw (mkV3 (rho * cos a) (rho * sin a) z).
  Proof.
    intros rho a z phi Hrho.
    destruct (screw_map_cyl rho (a + phi) (z + IZR starts * pitch * phi / (2 * PI)) Hrho) as [k1 E1].
    destruct (screw_map_cyl rho a z Hrho) as [k2 E2].
    rewrite E1, E2. f_equal.
    replace (z + IZR starts * pitch * phi / (2 * PI) - IZR starts * pitch * (a + phi) / (2 * PI) - IZR (k1 * starts) * pitch)
      with ((z - IZR starts * pitch * a / (2 * PI) - IZR (k2 * starts) * pitch) + IZR (k2 * starts - k1 * starts) * pitch).
    - apply sawtooth_periodic. lra.
    - rewrite minus_IZR. pose proof PI_RGT_0. field. lra.
  Qed.

  (* the same statement for a cartesian point off the axis and the rotation matrix *)
  Theorem screw_map_helix : forall x y z phi, (x <> 0 \/ y <> 0) ->
    screw_map the_screw (mkV3 (x * cos phi - y * sin phi) (x * sin phi + y * cos phi)
                              (z + IZR starts * pitch * phi / (2 * PI)))
    = screw_map the_screw (mkV3 x y z).
  Proof.
    intros x y z phi Hne.
    destruct (atan2_polar x y Hne) as [HX HY].
    set (rho := sqrt (x * x + y * y)) in *. set (a := Ratan2 y x) in *.
    assert (Hrho : 0 < rho).
    { unfold rho. apply sqrt_lt_R0. destruct Hne; nra. }
    replace (x * cos phi - y * sin phi) with (rho * cos (a + phi)) by (rewrite cos_plus; rewrite HX, HY at 1; ring).
    replace (x * sin phi + y * cos phi) with (rho * sin (a + phi)) by (rewrite sin_plus; rewrite HX, HY at 1; ring).
    rewrite screw_map_helix_cyl by exact Hrho.
    rewrite <- HX, <- HY. reflexivity.
  Qed.

  (* periodic in z with the pitch *)
  Theorem screw_map_z_periodic : forall x y z (k : Z),
    screw_map the_screw (mkV3 x y (z + IZR k * pitch)) = screw_map the_screw (mkV3 x y z).
  Proof.
    intros x y z k. unfold screw_map, the_screw. cbn [s_taper s_lead s_pitch wx wy wz].
    cbn [oeqb o0 ROps]. rewrite taper_test_0. cbn [negb]. f_equal.
    cbn [oadd omul odiv oatan2 ROps].
    replace (z + IZR k * pitch + - pitch * IZR starts * Ratan2 y x / @tau ROps)
      with (z + - pitch * IZR starts * Ratan2 y x / @tau ROps + IZR k * pitch) by ring.
    apply sawtooth_periodic. lra.
  Qed.

  (* Evaluate = max(profile value at the mapped point, |z| - half length) *)
  Lemma screw_eval_unfold thread p :
    screw_eval thread the_screw p = Rmax (thread (screw_map the_screw p)) (Rabs (wz p) - len).
  Proof. reflexivity. Qed.

  (* membership in the solid: inside the profile and between the end planes *)
  Lemma screw_inside thread p :
    screw_eval thread the_screw p <= 0 <-> thread (screw_map the_screw p) <= 0 /\ Rabs (wz p) <= len.
  Proof.
    rewrite screw_eval_unfold. split.
    - intros H. pose proof (Rmax_l (thread (screw_map the_screw p)) (Rabs (wz p) - len)).
      pose proof (Rmax_r (thread (screw_map the_screw p)) (Rabs (wz p) - len)). lra.
    - intros [H1 H2]. apply Rmax_lub; lra.
  Qed.

  (* within the length, the screw (value where the profile decides, and the solid) is invariant *)
  Theorem screw_helix_invariant : forall thread x y z phi, (x <> 0 \/ y <> 0) ->
    let p := mkV3 x y z in
    let q := mkV3 (x * cos phi - y * sin phi) (x * sin phi + y * cos phi) (z + IZR starts * pitch * phi / (2 * PI)) in
    thread (screw_map the_screw q) = thread (screw_map the_screw p) /\
    (Rabs (wz p) <= len -> Rabs (wz q) <= len ->
     (screw_eval thread the_screw q <= 0 <-> screw_eval thread the_screw p <= 0)) /\
    (Rabs (wz p) - len <= thread (screw_map the_screw p) -> Rabs (wz q) - len <= thread (screw_map the_screw p) ->
     screw_eval thread the_screw q = screw_eval thread the_screw p).
  Proof.
    intros thread x y z phi Hne p q.
    assert (E : screw_map the_screw q = screw_map the_screw p) by (apply screw_map_helix; exact Hne).
    split; [rewrite E; reflexivity|]. split.
    - intros Hp Hq. rewrite !screw_inside, E. tauto.
    - intros Hp Hq. rewrite !screw_eval_unfold, E. rewrite !Rmax_left by lra. reflexivity.
  Qed.

  Theorem screw_z_periodic : forall thread x y z (k : Z),
    let p := mkV3 x y z in
    let q := mkV3 x y (z + IZR k * pitch) in
    thread (screw_map the_screw q) = thread (screw_map the_screw p) /\
    (Rabs (wz p) <= len -> Rabs (wz q) <= len ->
     (screw_eval thread the_screw q <= 0 <-> screw_eval thread the_screw p <= 0)) /\
    (Rabs (wz p) - len <= thread (screw_map the_screw p) -> Rabs (wz q) - len <= thread (screw_map the_screw p) ->
     screw_eval thread the_screw q = screw_eval thread the_screw p).
  Proof.
    intros thread x y z k p q.
    assert (E : screw_map the_screw q = screw_map the_screw p) by apply screw_map_z_periodic.
    split; [rewrite E; reflexivity|]. split.
    - intros Hp Hq. rewrite !screw_inside, E. tauto.
    - intros Hp Hq. rewrite !screw_eval_unfold, E. rewrite !Rmax_left by lra. reflexivity.
  Qed.

  (* handedness: the crest line (profile abscissa 0) at angle phi is at height starts*pitch*phi/2pi *)
  Theorem screw_crest_line : forall rho phi, 0 < rho ->
    screw_map the_screw (mkV3 (rho * cos phi) (rho * sin phi) (IZR starts * pitch * phi / (2 * PI))) = mkV2 0 rho.
  Proof.
    intros rho phi Hrho.
    replace (rho * cos phi) with (rho * cos (0 + phi)) by (f_equal; f_equal; ring).
    replace (rho * sin phi) with (rho * sin (0 + phi)) by (f_equal; f_equal; ring).
    replace (IZR starts * pitch * phi / (2 * PI)) with (0 + IZR starts * pitch * phi / (2 * PI)) by ring.
    rewrite screw_map_helix_cyl by exact Hrho.
    destruct (screw_map_cyl rho 0 0 Hrho) as [k E]. rewrite E. f_equal.
    replace (0 - IZR starts * pitch * 0 / (2 * PI) - IZR (k * starts) * pitch)
      with (0 + IZR (- (k * starts)) * pitch) by (rewrite opp_IZR; pose proof PI_RGT_0; field; lra).
    rewrite sawtooth_periodic by lra. apply sawtooth_0. exact Hpitch.
  Qed.
End Helix.

(* ------------------------------------------------------------------ taper: a cone of half-angle `taper` *)

Lemma screw_taper_abs : forall (s : ScrewSDF3 ROps) rho a z, 0 <= rho ->
  vy (screw_map s (mkV3 (rho * cos a) (rho * sin a) z)) = Rabs (rho + z * tan (s_taper s)).
Proof.
  intros s rho a z Hrho. unfold screw_map. cbn [vy wx wy wz].
  cbn [osqrt oadd omul otan oeqb oabs o0 ROps].
  rewrite rho_of_polar by exact Hrho.
  destruct (Reqb (s_taper s) 0) eqn:E; cbn [negb].
  - apply Reqb_true in E. rewrite E, tan_0. rewrite Rmult_0_r, Rplus_0_r. symmetry. apply Rabs_pos_eq. exact Hrho.
  - reflexivity.
Qed.

(* outside the cone rho = - z tan(taper) around the axis the profile ordinate is rho + z tan(taper):
   the level sets of the profile are cones of half-angle `taper`; nearer the axis the point stays
   inside (mirrored), it does not drop below the profile *)
Theorem screw_taper_cone : forall (s : ScrewSDF3 ROps) rho a z, 0 <= rho ->
  0 <= rho + z * tan (s_taper s) ->
  vy (screw_map s (mkV3 (rho * cos a) (rho * sin a) z)) = rho + z * tan (s_taper s).
Proof.
  intros s rho a z Hrho Hpos. rewrite screw_taper_abs by exact Hrho. apply Rabs_pos_eq. exact Hpos.
Qed.

Theorem screw_map_ordinate_nonneg : forall (s : ScrewSDF3 ROps) x y z, 0 <= vy (screw_map s (mkV3 x y z)).
Proof.
  intros s x y z. unfold screw_map. cbn [vy wx wy wz]. cbn [osqrt oadd omul otan oeqb oabs o0 ROps].
  destruct (negb (Reqb (s_taper s) 0)); [apply Rabs_pos | apply sqrt_pos].
Qed.

(* ------------------------------------------------------------------ the constructor *)

Lemma screw3d_some : forall length taper pitch starts (s : ScrewSDF3 ROps),
  @screw3d ROps length taper pitch starts = Some s ->
  0 < length /\ 0 <= taper < PI / 2 /\ 0 < pitch /\
  s = mkScrew pitch ((- pitch) * IZR starts) (length / 2) taper.
Proof.
  intros length taper pitch starts s. unfold screw3d. cbn [oleb oltb o0 ROps opi omul].
  destruct (Rleb length 0) eqn:E1; [discriminate|]. apply Rleb_false in E1.
  destruct (Rltb taper 0) eqn:E2; [discriminate|]. apply Rltb_false in E2.
  destruct (Rleb (PI * @half ROps) taper) eqn:E3; [discriminate|]. apply Rleb_false in E3.
  destruct (Rleb pitch 0) eqn:E4; [discriminate|]. apply Rleb_false in E4.
  intros H. injection H as <-.
  unfold half, two in E3; cbn in E3.
  split; [lra|]. split; [lra|]. split; [lra|]. unfold two; cbn. f_equal; lra.
Qed.

Lemma screw3d_accepts : forall length taper pitch starts,
  0 < length -> 0 <= taper < PI / 2 -> 0 < pitch -> @screw3d ROps length taper pitch starts <> None.
Proof.
  intros length taper pitch starts H1 H2 H3. unfold screw3d. cbn [oleb oltb o0 ROps opi omul].
  destruct (Rleb length 0) eqn:E1; [apply Rleb_true in E1; lra|].
  destruct (Rltb taper 0) eqn:E2; [apply Rltb_true in E2; lra|].
  destruct (Rleb (PI * @half ROps) taper) eqn:E3.
  { apply Rleb_true in E3. unfold half, two in E3; cbn in E3. lra. }
  destruct (Rleb pitch 0) eqn:E4; [apply Rleb_true in E4; lra|].
  discriminate.
Qed.

(* ------------------------------------------------------------------ mating reduces to the profiles *)

(* The bolt thread and the thread cut into the nut use the same mapping into the profile plane
   (same pitch, lead, taper, axis and phase).  If, on the strip the mapping reaches, every
   point strictly inside the external profile is in the closed internal profile (the hole), then
   no point is strictly inside both the bolt thread and the material left in the nut body. *)
Theorem mating_reduces_to_profiles :
  forall (ext int : V2 ROps -> R) (body : V3 ROps -> R) pitch lead taper len_e len_i,
  0 < pitch ->
  (forall q, - pitch / 2 <= vx q < pitch / 2 -> ext q < 0 -> int q <= 0) ->
  (forall p, body p < 0 -> Rabs (wz p) <= len_i) ->
  forall p,
    ~ (screw_eval ext (mkScrew pitch lead len_e taper) p < 0 /\
       @difference ROps (body p) (screw_eval int (mkScrew pitch lead len_i taper) p) < 0).
Proof.
  intros ext int body pitch lead taper len_e len_i Hp Hnest Hbody p [He Hn].
  unfold difference in Hn. cbn [omax oneg ROps] in Hn.
  assert (Hb : body p < 0).
  { eapply Rle_lt_trans; [apply Rmax_l | exact Hn]. }
  assert (Hi : 0 < screw_eval int (mkScrew pitch lead len_i taper) p).
  { pose proof (Rmax_r (body p) (- screw_eval int (mkScrew pitch lead len_i taper) p)). lra. }
  unfold screw_eval in He, Hi. cbn [omax oabs osub ROps s_length] in He, Hi.
  assert (M : screw_map (mkScrew pitch lead len_e taper) p = screw_map (mkScrew pitch lead len_i taper) p) by reflexivity.
  rewrite M in He.
  set (q := screw_map (mkScrew pitch lead len_i taper) p) in *.
  assert (He0 : ext q < 0).
  { eapply Rle_lt_trans; [apply Rmax_l | exact He]. }
  assert (Hq : - pitch / 2 <= vx q < pitch / 2).
  { unfold q, screw_map. cbn [vx s_pitch]. apply sawtooth_range. exact Hp. }
  pose proof (Hnest q Hq He0) as Hint.
  pose proof (Hbody p Hb) as Hz.
  assert (Rmax (int q) (Rabs (wz p) - len_i) <= 0) by (apply Rmax_lub; lra).
  lra.
Qed.
