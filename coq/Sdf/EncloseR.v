(* C01 over the reals, part 1: tools and the primitives.
   enc2/enc3 (Sdf/ShapeR.v): the stored box is ordered and every point with a negative value
   lies in it.  The working form of the max-norm class `lbinf` is "slab" form: outside the box
   the value dominates the signed distance to each of the 4/6 face planes. *)
From Coq Require Import Reals Lra Lia List Bool ZArith Psatz.
From Sdfx Require Import Num.Ops Num.RInst Geo.Vec Geo.Box Geo.BoxR Geo.MinMaxR Geo.NormR Geo.Mat
  Sdf.Union2 Sdf.Shape Sdf.ShapeR.
Import ListNotations.
Open Scope R_scope.

(* ------------------------------------------------------------ tactics *)
(* k_xxx args = Some o: walk through the constructor's own parameter checks *)
Ltac kchecks H :=
  repeat match type of H with
  | (if ?c then None else _) = Some _ =>
      let C := fresh "K" in destruct c eqn:C; [discriminate H|]
  end.
Ltac kinv H := kchecks H; injection H as <-.
Ltac bfalse :=
  repeat match goal with
  | H : (_ || _)%bool = false |- _ => apply orb_false_iff in H; destruct H
  | H : Rltb _ _ = false |- _ => apply Rltb_false in H
  | H : Rleb _ _ = false |- _ => apply Rleb_false in H
  | H : Reqb _ _ = false |- _ => apply Reqb_false in H
  | H : Rltb _ _ = true |- _ => apply Rltb_true in H
  | H : Rleb _ _ = true |- _ => apply Rleb_true in H
  | H : Reqb _ _ = true |- _ => apply Reqb_true in H
  end.
Ltac ropen :=
  change (oadd ROps) with Rplus in *; change (osub ROps) with Rminus in *;
  change (omul ROps) with Rmult in *; change (odiv ROps) with Rdiv in *;
  change (oneg ROps) with Ropp in *; change (oabs ROps) with Rabs in *;
  change (osqrt ROps) with sqrt in *; change (omin ROps) with Rmin in *;
  change (omax ROps) with Rmax in *; change (oltb ROps) with Rltb in *;
  change (oleb ROps) with Rleb in *; change (oeqb ROps) with Reqb in *;
  change (o0 ROps) with 0 in *; change (o1 ROps) with 1 in *; change (T ROps) with R in *.

Lemma half_eq : @half ROps = / 2.
Proof. unfold half, two; cbn. field. Qed.
Lemma k05_eq : @k05 ROps = / 2.
Proof. apply half_eq. Qed.
Lemma two_eq : @two ROps = 2.
Proof. unfold two; cbn. ring. Qed.

Lemma Rabs_le_inv x a : Rabs x <= a -> - a <= x <= a.
Proof. unfold Rabs; destruct (Rcase_abs x); lra. Qed.
Lemma Rabs_lt_inv x a : Rabs x < a -> - a < x < a.
Proof. unfold Rabs; destruct (Rcase_abs x); lra. Qed.
Lemma Rabs_ge_l x : x <= Rabs x.
Proof. apply Rle_abs. Qed.
Lemma Rabs_ge_r x : - x <= Rabs x.
Proof. rewrite <- Rabs_Ropp. apply Rle_abs. Qed.

(* ------------------------------------------------------------ slab form of lbinf *)
Definition slab2 (b : RBox2) (f : RV2 -> R) (p : RV2) : Prop :=
  vx (b2min b) - vx p <= f p /\ vx p - vx (b2max b) <= f p /\
  vy (b2min b) - vy p <= f p /\ vy p - vy (b2max b) <= f p.
Definition slab3 (b : RBox3) (f : RV3 -> R) (p : RV3) : Prop :=
  wx (b3min b) - wx p <= f p /\ wx p - wx (b3max b) <= f p /\
  wy (b3min b) - wy p <= f p /\ wy p - wy (b3max b) <= f p /\
  wz (b3min b) - wz p <= f p /\ wz p - wz (b3max b) <= f p.

Lemma axd_le lo hi x v : 0 <= v -> lo - x <= v -> x - hi <= v -> axd lo hi x <= v.
Proof. intros. unfold axd. apply Rmax_lub; [lra | apply Rmax_lub; lra]. Qed.
Lemma axd_ge_lo lo hi x : lo - x <= axd lo hi x.
Proof. unfold axd. eapply Rle_trans; [apply Rmax_l | apply Rmax_r]. Qed.
Lemma axd_ge_hi lo hi x : x - hi <= axd lo hi x.
Proof. unfold axd. eapply Rle_trans; [apply Rmax_r with (x := lo - x) | apply Rmax_r]. Qed.

Lemma out2_pos b f p : ~ in_box2 b p -> slab2 b f p -> 0 < f p.
Proof.
  unfold in_box2, slab2. intros Ho (A & B & C & D).
  destruct (Rle_dec (vx (b2min b)) (vx p)), (Rle_dec (vx p) (vx (b2max b))),
           (Rle_dec (vy (b2min b)) (vy p)), (Rle_dec (vy p) (vy (b2max b)));
  first [lra | exfalso; apply Ho; lra].
Qed.
Lemma out3_pos b f p : ~ in_box3 b p -> slab3 b f p -> 0 < f p.
Proof.
  unfold in_box3, slab3. intros Ho (A & B & C & D & E & F).
  destruct (Rle_dec (wx (b3min b)) (wx p)), (Rle_dec (wx p) (wx (b3max b))),
           (Rle_dec (wy (b3min b)) (wy p)), (Rle_dec (wy p) (wy (b3max b))),
           (Rle_dec (wz (b3min b)) (wz p)), (Rle_dec (wz p) (wz (b3max b)));
  first [lra | exfalso; apply Ho; lra].
Qed.

Lemma lbinf2_intro o : ordered2 (bb2 o) ->
  (forall p, ~ in_box2 (bb2 o) p -> slab2 (bb2 o) (ev2 o) p) -> lbinf_2 o.
Proof.
  intros Ho H. split; [exact Ho|]. intros p.
  destruct (classic_in_box2 (bb2 o) p) as [Hin|Hout]; [now right | left].
  pose proof (H p Hout) as S. pose proof (out2_pos _ _ _ Hout S) as Hp.
  destruct S as (A & B & C & D). unfold boxdistinf2. apply Rmax_lub; apply axd_le; lra.
Qed.
Lemma lbinf2_elim o p : lbinf_2 o -> ~ in_box2 (bb2 o) p -> slab2 (bb2 o) (ev2 o) p.
Proof.
  intros [_ H] Hout. destruct (H p) as [Hd|Hin]; [|contradiction].
  unfold boxdistinf2 in Hd. unfold slab2.
  pose proof (Rmax_l (axd (vx (b2min (bb2 o))) (vx (b2max (bb2 o))) (vx p)) (axd (vy (b2min (bb2 o))) (vy (b2max (bb2 o))) (vy p))).
  pose proof (Rmax_r (axd (vx (b2min (bb2 o))) (vx (b2max (bb2 o))) (vx p)) (axd (vy (b2min (bb2 o))) (vy (b2max (bb2 o))) (vy p))).
  pose proof (axd_ge_lo (vx (b2min (bb2 o))) (vx (b2max (bb2 o))) (vx p)).
  pose proof (axd_ge_hi (vx (b2min (bb2 o))) (vx (b2max (bb2 o))) (vx p)).
  pose proof (axd_ge_lo (vy (b2min (bb2 o))) (vy (b2max (bb2 o))) (vy p)).
  pose proof (axd_ge_hi (vy (b2min (bb2 o))) (vy (b2max (bb2 o))) (vy p)).
  repeat split; lra.
Qed.
Lemma lbinf3_intro o : ordered3 (bb3 o) ->
  (forall p, ~ in_box3 (bb3 o) p -> slab3 (bb3 o) (ev3 o) p) -> lbinf_3 o.
Proof.
  intros Ho H. split; [exact Ho|]. intros p.
  destruct (classic_in_box3 (bb3 o) p) as [Hin|Hout]; [now right | left].
  pose proof (H p Hout) as S. pose proof (out3_pos _ _ _ Hout S) as Hp.
  destruct S as (A & B & C & D & E & F). unfold boxdistinf3. apply Rmax_lub; [apply Rmax_lub|]; apply axd_le; lra.
Qed.
Lemma lbinf3_elim o p : lbinf_3 o -> ~ in_box3 (bb3 o) p -> slab3 (bb3 o) (ev3 o) p.
Proof.
  intros [_ H] Hout. destruct (H p) as [Hd|Hin]; [|contradiction].
  unfold boxdistinf3 in Hd. unfold slab3.
  pose proof (axd_ge_lo (wx (b3min (bb3 o))) (wx (b3max (bb3 o))) (wx p)).
  pose proof (axd_ge_hi (wx (b3min (bb3 o))) (wx (b3max (bb3 o))) (wx p)).
  pose proof (axd_ge_lo (wy (b3min (bb3 o))) (wy (b3max (bb3 o))) (wy p)).
  pose proof (axd_ge_hi (wy (b3min (bb3 o))) (wy (b3max (bb3 o))) (wy p)).
  pose proof (axd_ge_lo (wz (b3min (bb3 o))) (wz (b3max (bb3 o))) (wz p)).
  pose proof (axd_ge_hi (wz (b3min (bb3 o))) (wz (b3max (bb3 o))) (wz p)).
  set (ax := axd (wx (b3min (bb3 o))) (wx (b3max (bb3 o))) (wx p)) in *.
  set (ay := axd (wy (b3min (bb3 o))) (wy (b3max (bb3 o))) (wy p)) in *.
  set (az := axd (wz (b3min (bb3 o))) (wz (b3max (bb3 o))) (wz p)) in *.
  pose proof (Rmax_l (Rmax ax ay) az). pose proof (Rmax_r (Rmax ax ay) az).
  pose proof (Rmax_l ax ay). pose proof (Rmax_r ax ay).
  repeat split; lra.
Qed.

(* the whole-space slab inequality gives both the class and the enclosure *)
Lemma slab_all_lbinf2 o : ordered2 (bb2 o) -> (forall p, slab2 (bb2 o) (ev2 o) p) -> lbinf_2 o.
Proof. intros Ho H. apply lbinf2_intro; auto. Qed.
Lemma slab_all_lbinf3 o : ordered3 (bb3 o) -> (forall p, slab3 (bb3 o) (ev3 o) p) -> lbinf_3 o.
Proof. intros Ho H. apply lbinf3_intro; auto. Qed.

Lemma boxdistinf3_pos b p : ~ in_box3 b p -> 0 < boxdistinf3 b p.
Proof.
  intros H. unfold boxdistinf3.
  set (ax := axd (wx (b3min b)) (wx (b3max b)) (wx p)).
  set (ay := axd (wy (b3min b)) (wy (b3max b)) (wy p)).
  set (az := axd (wz (b3min b)) (wz (b3max b)) (wz p)).
  pose proof (Rmax_l (Rmax ax ay) az). pose proof (Rmax_r (Rmax ax ay) az).
  pose proof (Rmax_l ax ay). pose proof (Rmax_r ax ay).
  destruct (Rle_dec (wx (b3min b)) (wx p)), (Rle_dec (wx p) (wx (b3max b))),
           (Rle_dec (wy (b3min b)) (wy p)), (Rle_dec (wy p) (wy (b3max b))),
           (Rle_dec (wz (b3min b)) (wz p)), (Rle_dec (wz p) (wz (b3max b)));
  try (exfalso; apply H; unfold in_box3; lra);
  first [ assert (0 < ax) by (apply axd_pos; lra); lra
        | assert (0 < ay) by (apply axd_pos; lra); lra
        | assert (0 < az) by (apply axd_pos; lra); lra ].
Qed.
Lemma lbinf3_enc o : lbinf_3 o -> enc3 o.
Proof.
  intros [Ho H]. split; [exact Ho|]. intros p Hp. destruct (H p) as [Hd|Hin]; [|exact Hin].
  destruct (classic_in_box3 (bb3 o) p) as [Hin|Hout]; [exact Hin|].
  pose proof (boxdistinf3_pos _ _ Hout). lra.
Qed.

Lemma le_sqrt_sq a s : 0 <= a -> a * a <= s -> a <= sqrt s.
Proof. intros Ha H. rewrite <- (sqrt_square a Ha). apply sqrt_le_1_alt. exact H. Qed.
Lemma sqrt_le_sq a s : 0 <= a -> s <= a * a -> sqrt s <= a.
Proof. intros Ha H. rewrite <- (sqrt_square a Ha). apply sqrt_le_1_alt. exact H. Qed.

(* the Euclidean class is contained in the max-norm class *)
Lemma boxdistinf2_le b p : boxdistinf2 b p <= boxdist2 b p.
Proof.
  unfold boxdistinf2, boxdist2.
  set (ax := axd _ _ (vx p)). set (ay := axd _ _ (vy p)).
  assert (0 <= ax) by apply axd_nonneg. assert (0 <= ay) by apply axd_nonneg.
  apply Rmax_lub; (apply le_sqrt_sq; [assumption | nra]).
Qed.
Lemma boxdistinf3_le b p : boxdistinf3 b p <= boxdist3 b p.
Proof.
  unfold boxdistinf3, boxdist3.
  set (ax := axd _ _ (wx p)). set (ay := axd _ _ (wy p)). set (az := axd _ _ (wz p)).
  assert (0 <= ax) by apply axd_nonneg. assert (0 <= ay) by apply axd_nonneg. assert (0 <= az) by apply axd_nonneg.
  apply Rmax_lub; [apply Rmax_lub|]; (apply le_sqrt_sq; [assumption | nra]).
Qed.
Lemma lb2_lbinf2 o : lb2_2 o -> lbinf_2 o.
Proof.
  intros [Ho H]. split; [exact Ho|]. intros p. destruct (H p) as [Hd|Hin]; [left | now right].
  pose proof (boxdistinf2_le (bb2 o) p). lra.
Qed.
Lemma lb2_lbinf3 o : lb2_3 o -> lbinf_3 o.
Proof.
  intros [Ho H]. split; [exact Ho|]. intros p. destruct (H p) as [Hd|Hin]; [left | now right].
  pose proof (boxdistinf3_le (bb3 o) p). lra.
Qed.
Lemma lb2_enc2 o : lb2_2 o -> enc2 o.
Proof. intros H. apply lbinf2_enc, lb2_lbinf2, H. Qed.
Lemma lb2_enc3 o : lb2_3 o -> enc3 o.
Proof. intros H. apply lbinf3_enc, lb2_lbinf3, H. Qed.

(* the distance to a box is at most the distance to any of its points *)
Lemma axd_le_abs lo hi x q : lo <= q <= hi -> axd lo hi x <= Rabs (x - q).
Proof.
  intros Hq. pose proof (Rabs_ge_l (x - q)). pose proof (Rabs_ge_r (x - q)). pose proof (Rabs_pos (x - q)).
  apply axd_le; lra.
Qed.
Lemma sq_le_abs a b : 0 <= a -> a <= Rabs b -> a * a <= b * b.
Proof. intros Ha H. replace (b * b) with (Rabs b * Rabs b) by (unfold Rabs; destruct (Rcase_abs b); ring). nra. Qed.
Lemma boxdist2_le_dist b p q : in_box2 b q -> boxdist2 b p <= dist2 p q.
Proof.
  intros [Hx Hy]. unfold boxdist2, dist2, len2, sub2; cbn [vx vy]. apply sqrt_le_1_alt.
  pose proof (axd_le_abs _ _ (vx p) _ Hx). pose proof (axd_le_abs _ _ (vy p) _ Hy).
  pose proof (sq_le_abs _ _ (axd_nonneg _ _ _) H). pose proof (sq_le_abs _ _ (axd_nonneg _ _ _) H0). lra.
Qed.
Lemma boxdist3_le_dist b p q : in_box3 b q -> boxdist3 b p <= dist3 p q.
Proof.
  intros (Hx & Hy & Hz). unfold boxdist3, dist3, len3, sub3; cbn [wx wy wz]. apply sqrt_le_1_alt.
  pose proof (axd_le_abs _ _ (wx p) _ Hx). pose proof (axd_le_abs _ _ (wy p) _ Hy).
  pose proof (axd_le_abs _ _ (wz p) _ Hz).
  pose proof (sq_le_abs _ _ (axd_nonneg _ _ _) H). pose proof (sq_le_abs _ _ (axd_nonneg _ _ _) H0).
  pose proof (sq_le_abs _ _ (axd_nonneg _ _ _) H1). lra.
Qed.

(* ------------------------------------------------------------ Circle2D, Sphere3D *)
Lemma ball2_near r (p : RV2) : 0 <= r -> r < len2 p ->
  exists q, len2 q <= r /\ dist2 p q = len2 p - r.
Proof.
  intros Hr Hp. set (l := len2 p) in *. assert (Hl : 0 < l) by lra.
  exists (mkV2 (vx p * (r / l)) (vy p * (r / l))).
  pose proof (len2_sq p) as S. fold l in S.
  split.
  - apply len2_le; [lra|]; cbn [vx vy].
    replace (vx p * (r / l) * (vx p * (r / l)) + vy p * (r / l) * (vy p * (r / l)))
      with ((vx p * vx p + vy p * vy p) * (r / l * (r / l))) by ring.
    rewrite <- S. replace (l * l * (r / l * (r / l))) with (r * r) by (field; lra). lra.
  - unfold dist2. apply Rle_antisym.
    + apply len2_le; [lra|]; cbn [sub2 vx vy].
      replace ((vx p - vx p * (r / l)) * (vx p - vx p * (r / l)) + (vy p - vy p * (r / l)) * (vy p - vy p * (r / l)))
        with ((vx p * vx p + vy p * vy p) * ((1 - r / l) * (1 - r / l))) by ring.
      rewrite <- S. replace (l * l * ((1 - r / l) * (1 - r / l))) with ((l - r) * (l - r)) by (field; lra). lra.
    + apply le_len2; [lra|]; cbn [sub2 vx vy].
      replace ((vx p - vx p * (r / l)) * (vx p - vx p * (r / l)) + (vy p - vy p * (r / l)) * (vy p - vy p * (r / l)))
        with ((vx p * vx p + vy p * vy p) * ((1 - r / l) * (1 - r / l))) by ring.
      rewrite <- S. replace (l * l * ((1 - r / l) * (1 - r / l))) with ((l - r) * (l - r)) by (field; lra). lra.
Qed.
Lemma ball3_near r (p : RV3) : 0 <= r -> r < len3 p ->
  exists q, len3 q <= r /\ dist3 p q = len3 p - r.
Proof.
  intros Hr Hp. set (l := len3 p) in *. assert (Hl : 0 < l) by lra.
  exists (mkV3 (wx p * (r / l)) (wy p * (r / l)) (wz p * (r / l))).
  pose proof (len3_sq p) as S. fold l in S.
  assert (E1 : forall k, wx p * k * (wx p * k) + wy p * k * (wy p * k) + wz p * k * (wz p * k) = l * l * (k * k))
    by (intros; rewrite S; ring).
  assert (E2 : forall k, (wx p - wx p * k) * (wx p - wx p * k) + (wy p - wy p * k) * (wy p - wy p * k)
               + (wz p - wz p * k) * (wz p - wz p * k) = l * l * ((1 - k) * (1 - k)))
    by (intros; rewrite S; ring).
  split.
  - apply len3_le; [lra|]; cbn [wx wy wz]. rewrite E1.
    replace (l * l * (r / l * (r / l))) with (r * r) by (field; lra). lra.
  - unfold dist3. apply Rle_antisym.
    + apply len3_le; [lra|]; cbn [sub3 wx wy wz]. rewrite E2.
      replace (l * l * ((1 - r / l) * (1 - r / l))) with ((l - r) * (l - r)) by (field; lra). lra.
    + apply le_len3; [lra|]; cbn [sub3 wx wy wz]. rewrite E2.
      replace (l * l * ((1 - r / l) * (1 - r / l))) with ((l - r) * (l - r)) by (field; lra). lra.
Qed.

Lemma circle_lb2 r o : @k_circle ROps r = Some o -> lb2_2 o.
Proof.
  unfold k_circle; cbn. intros H. kinv H. bfalse. unfold lb2_2; cbn [bb2 ev2].
  split; [unfold ordered2; cbn; lra|]. intros p. change (sqrt (vx p * vx p + vy p * vy p)) with (len2 p).
  destruct (Rle_dec (len2 p) r) as [Hin|Hout].
  - right. pose proof (abs_le_len2_x p). pose proof (abs_le_len2_y p).
    assert (Ax : Rabs (vx p) <= r) by lra. assert (Ay : Rabs (vy p) <= r) by lra.
    apply Rabs_le_inv in Ax, Ay. unfold in_box2; cbn. lra.
  - left. destruct (ball2_near r p) as (q & Hq & Hd); [lra | lra|]. rewrite <- Hd.
    apply boxdist2_le_dist. pose proof (abs_le_len2_x q). pose proof (abs_le_len2_y q).
    assert (Ax : Rabs (vx q) <= r) by lra. assert (Ay : Rabs (vy q) <= r) by lra.
    apply Rabs_le_inv in Ax, Ay. unfold in_box2; cbn. lra.
Qed.
Lemma circle_enc r o : @k_circle ROps r = Some o -> enc2 o.
Proof. intros H. apply lb2_enc2, (circle_lb2 _ _ H). Qed.

Lemma sphere_lb2 r o : @k_sphere ROps r = Some o -> lb2_3 o.
Proof.
  unfold k_sphere; cbn. intros H. kinv H. bfalse. unfold lb2_3; cbn [bb3 ev3].
  split; [unfold ordered3; cbn; lra|]. intros p. change (sqrt (wx p * wx p + wy p * wy p + wz p * wz p)) with (len3 p).
  destruct (Rle_dec (len3 p) r) as [Hin|Hout].
  - right. pose proof (abs_le_len3_x p). pose proof (abs_le_len3_y p). pose proof (abs_le_len3_z p).
    assert (Ax : Rabs (wx p) <= r) by lra. assert (Ay : Rabs (wy p) <= r) by lra.
    assert (Az : Rabs (wz p) <= r) by lra.
    apply Rabs_le_inv in Ax, Ay, Az. unfold in_box3; cbn. lra.
  - left. destruct (ball3_near r p) as (q & Hq & Hd); [lra | lra|]. rewrite <- Hd.
    apply boxdist3_le_dist. pose proof (abs_le_len3_x q). pose proof (abs_le_len3_y q).
    pose proof (abs_le_len3_z q).
    assert (Ax : Rabs (wx q) <= r) by lra. assert (Ay : Rabs (wy q) <= r) by lra.
    assert (Az : Rabs (wz q) <= r) by lra.
    apply Rabs_le_inv in Ax, Ay, Az. unfold in_box3; cbn. lra.
Qed.
Lemma sphere_enc r o : @k_sphere ROps r = Some o -> enc3 o.
Proof. intros H. apply lb2_enc3, (sphere_lb2 _ _ H). Qed.

(* ------------------------------------------------------------ the box fields *)
Lemma le_sqrt2_l a b : a <= sqrt (a * a + b * b).
Proof. destruct (Rle_dec 0 a); [apply le_sqrt_sq; nra | pose proof (sqrt_pos (a * a + b * b)); lra]. Qed.
Lemma le_sqrt2_r a b : b <= sqrt (a * a + b * b).
Proof. destruct (Rle_dec 0 b); [apply le_sqrt_sq; nra | pose proof (sqrt_pos (a * a + b * b)); lra]. Qed.
Lemma le_sqrt3_1 a b c : a <= sqrt (a * a + b * b + c * c).
Proof. destruct (Rle_dec 0 a); [apply le_sqrt_sq; nra | pose proof (sqrt_pos (a * a + b * b + c * c)); lra]. Qed.
Lemma le_sqrt3_2 a b c : b <= sqrt (a * a + b * b + c * c).
Proof. destruct (Rle_dec 0 b); [apply le_sqrt_sq; nra | pose proof (sqrt_pos (a * a + b * b + c * c)); lra]. Qed.
Lemma le_sqrt3_3 a b c : c <= sqrt (a * a + b * b + c * c).
Proof. destruct (Rle_dec 0 c); [apply le_sqrt_sq; nra | pose proof (sqrt_pos (a * a + b * b + c * c)); lra]. Qed.

Lemma sdf_box2d_ge p s :
  Rabs (vx p) - vx s <= @sdf_box2d ROps p s /\ Rabs (vy p) - vy s <= @sdf_box2d ROps p s.
Proof.
  unfold sdf_box2d; cbn. set (dx := Rabs (vx p) - vx s). set (dy := Rabs (vy p) - vy s).
  replace (Rabs (vy p) - Rabs (vx p)) with (dy - dx + (vy s - vx s)) by (unfold dx, dy; ring).
  pose proof (le_sqrt2_l dx dy). pose proof (le_sqrt2_r dx dy).
  destruct (Rltb 0 dx) eqn:C1; destruct (Rltb 0 dy) eqn:C2; cbn [andb]; bfalse; try (split; lra);
  rcmp1; lra.
Qed.

Lemma sdf_box3d_ge p s :
  Rabs (wx p) - wx s <= @sdf_box3d ROps p s /\ Rabs (wy p) - wy s <= @sdf_box3d ROps p s /\
  Rabs (wz p) - wz s <= @sdf_box3d ROps p s.
Proof.
  unfold sdf_box3d; cbn.
  set (dx := Rabs (wx p) - wx s). set (dy := Rabs (wy p) - wy s). set (dz := Rabs (wz p) - wz s).
  pose proof (le_sqrt3_1 dx dy dz). pose proof (le_sqrt3_2 dx dy dz). pose proof (le_sqrt3_3 dx dy dz).
  pose proof (le_sqrt2_l dx dy). pose proof (le_sqrt2_r dx dy).
  pose proof (le_sqrt2_l dx dz). pose proof (le_sqrt2_r dx dz).
  pose proof (le_sqrt2_l dy dz). pose proof (le_sqrt2_r dy dz).
  pose proof (Rmax_l (Rmax dx dy) dz). pose proof (Rmax_r (Rmax dx dy) dz).
  pose proof (Rmax_l dx dy). pose proof (Rmax_r dx dy).
  destruct (Rltb 0 dx) eqn:C1; destruct (Rltb 0 dy) eqn:C2; destruct (Rltb 0 dz) eqn:C3; cbn [andb]; bfalse;
  repeat split; lra.
Qed.

(* ------------------------------------------------------------ Box2D, Line2D *)
(* Go's Box2D and Line2D do not validate their parameters: the box is ordered only for size >= 0
   (Box2D: any rounding, even one exceeding the half size) resp. l >= 0, round >= 0 (Line2D). *)
Lemma box2_slab size round o : @k_box2 ROps size round = Some o -> forall p, slab2 (bb2 o) (ev2 o) p.
Proof.
  intros H. unfold k_box2 in H; cbn in H. injection H as <-.
  intros p. unfold slab2; cbn.
  destruct (sdf_box2d_ge p (v2subs (v2muls size (1 / (1 + 1))) round)) as [A B]. cbn in A, B.
  pose proof (Rabs_ge_l (vx p)). pose proof (Rabs_ge_r (vx p)).
  pose proof (Rabs_ge_l (vy p)). pose proof (Rabs_ge_r (vy p)). repeat split; lra.
Qed.
Lemma box2_lbinf size round o : 0 <= vx size -> 0 <= vy size ->
  @k_box2 ROps size round = Some o -> lbinf_2 o.
Proof.
  intros Hx Hy H. apply slab_all_lbinf2; [|exact (box2_slab _ _ _ H)].
  unfold k_box2 in H; cbn in H. injection H as <-. unfold ordered2; cbn. lra.
Qed.
Lemma box2_enc size round o : 0 <= vx size -> 0 <= vy size -> @k_box2 ROps size round = Some o -> enc2 o.
Proof. intros Hx Hy H. apply lbinf2_enc, (box2_lbinf _ _ _ Hx Hy H). Qed.

Lemma line2_lbinf l round o : 0 <= l -> 0 <= round ->
  @k_line2 ROps l round = Some o -> lbinf_2 o.
Proof.
  intros Hl Hr H. unfold k_line2 in H; cbn in H. injection H as <-.
  apply slab_all_lbinf2; [unfold ordered2; cbn; lra|].
  intros p. unfold slab2; cbn.
  pose proof (Rabs_ge_l (vx p)). pose proof (Rabs_ge_r (vx p)).
  pose proof (Rabs_ge_l (vy p)). pose proof (Rabs_ge_r (vy p)). pose proof (Rabs_pos (vy p)).
  rcmp1.
  - repeat split; lra.
  - replace (Rabs (vy p) - 0) with (Rabs (vy p)) by ring.
    pose proof (le_sqrt2_l (Rabs (vx p) - l / (1 + 1)) (Rabs (vy p))).
    pose proof (le_sqrt2_r (Rabs (vx p) - l / (1 + 1)) (Rabs (vy p))). repeat split; lra.
Qed.
Lemma line2_enc l round o : 0 <= l -> 0 <= round -> @k_line2 ROps l round = Some o -> enc2 o.
Proof. intros Hl Hr H. apply lbinf2_enc, (line2_lbinf _ _ _ Hl Hr H). Qed.

(* ------------------------------------------------------------ Box3D, Cylinder3D *)
Lemma box3_lbinf size round o : @k_box3 ROps size round = Some o -> lbinf_3 o.
Proof.
  intros H. unfold k_box3, v3_lte_zero in H; cbn in H. kinv H. bfalse.
  apply slab_all_lbinf3; [unfold ordered3; cbn; lra|].
  intros p. unfold slab3; cbn.
  destruct (sdf_box3d_ge p (v3subs (v3muls size (1 / (1 + 1))) round)) as (A & B & C). cbn in A, B, C.
  pose proof (Rabs_ge_l (wx p)). pose proof (Rabs_ge_r (wx p)).
  pose proof (Rabs_ge_l (wy p)). pose proof (Rabs_ge_r (wy p)).
  pose proof (Rabs_ge_l (wz p)). pose proof (Rabs_ge_r (wz p)). repeat split; lra.
Qed.
Lemma box3_enc size round o : @k_box3 ROps size round = Some o -> enc3 o.
Proof. intros H. apply lbinf3_enc, (box3_lbinf _ _ _ H). Qed.

Lemma cylinder_lbinf h r round o : @k_cylinder ROps h r round = Some o -> lbinf_3 o.
Proof.
  intros H. unfold k_cylinder in H; cbn in H. kinv H. bfalse.
  apply slab_all_lbinf3; [unfold ordered3; cbn; lra|].
  intros p. unfold slab3; cbn.
  set (rho := sqrt (wx p * wx p + wy p * wy p)).
  destruct (sdf_box2d_ge (mkV2 rho (wz p)) (mkV2 (r - round) (h / (1 + 1) - round))) as [A B]. cbn in A, B.
  assert (Hrho : 0 <= rho) by apply sqrt_pos. rewrite (Rabs_pos_eq rho Hrho) in A.
  pose proof (abs_le_len2_x (mkV2 (wx p) (wy p))) as X. pose proof (abs_le_len2_y (mkV2 (wx p) (wy p))) as Y.
  unfold len2 in X, Y; cbn in X, Y. fold rho in X, Y.
  pose proof (Rabs_ge_l (wx p)). pose proof (Rabs_ge_r (wx p)).
  pose proof (Rabs_ge_l (wy p)). pose proof (Rabs_ge_r (wy p)).
  pose proof (Rabs_ge_l (wz p)). pose proof (Rabs_ge_r (wz p)). repeat split; lra.
Qed.
Lemma cylinder_enc h r round o : @k_cylinder ROps h r round = Some o -> enc3 o.
Proof. intros H. apply lbinf3_enc, (cylinder_lbinf _ _ _ _ H). Qed.

(* ------------------------------------------------------------ the three invariants as one
   cls D o: the box is ordered and outside it the value is at least D(box, point).
   D = 0 is enclosure (enc), D = boxdistinf the class lbinf, D = boxdist the class lb2. *)
Definition cls2 (D : RBox2 -> RV2 -> R) (o : RObj2) : Prop :=
  ordered2 (bb2 o) /\ forall p, D (bb2 o) p <= ev2 o p \/ in_box2 (bb2 o) p.
Definition cls3 (D : RBox3 -> RV3 -> R) (o : RObj3) : Prop :=
  ordered3 (bb3 o) /\ forall p, D (bb3 o) p <= ev3 o p \/ in_box3 (bb3 o) p.
Definition D0_2 : RBox2 -> RV2 -> R := fun _ _ => 0.
Definition D0_3 : RBox3 -> RV3 -> R := fun _ _ => 0.

Lemma enc2_cls o : enc2 o <-> cls2 D0_2 o.
Proof.
  unfold enc2, cls2, D0_2. split; intros [Ho H]; (split; [exact Ho|]); intros p.
  - destruct (Rle_dec 0 (ev2 o p)); [now left | right; apply H; lra].
  - intros Hp. destruct (H p); [lra | assumption].
Qed.
Lemma enc3_cls o : enc3 o <-> cls3 D0_3 o.
Proof.
  unfold enc3, cls3, D0_3. split; intros [Ho H]; (split; [exact Ho|]); intros p.
  - destruct (Rle_dec 0 (ev3 o p)); [now left | right; apply H; lra].
  - intros Hp. destruct (H p); [lra | assumption].
Qed.
Lemma lbinf2_cls o : lbinf_2 o <-> cls2 boxdistinf2 o.
Proof. reflexivity. Qed.
Lemma lbinf3_cls o : lbinf_3 o <-> cls3 boxdistinf3 o.
Proof. reflexivity. Qed.
Lemma lb2_2_cls o : lb2_2 o <-> cls2 boxdist2 o.
Proof. reflexivity. Qed.
Lemma lb2_3_cls o : lb2_3 o <-> cls3 boxdist3 o.
Proof. reflexivity. Qed.

(* box inclusion *)
Definition sub_box2 (a b : RBox2) : Prop :=
  vx (b2min b) <= vx (b2min a) /\ vx (b2max a) <= vx (b2max b) /\
  vy (b2min b) <= vy (b2min a) /\ vy (b2max a) <= vy (b2max b).
Definition sub_box3 (a b : RBox3) : Prop :=
  wx (b3min b) <= wx (b3min a) /\ wx (b3max a) <= wx (b3max b) /\
  wy (b3min b) <= wy (b3min a) /\ wy (b3max a) <= wy (b3max b) /\
  wz (b3min b) <= wz (b3min a) /\ wz (b3max a) <= wz (b3max b).
Lemma sub_box2_in a b p : sub_box2 a b -> in_box2 a p -> in_box2 b p.
Proof. unfold sub_box2, in_box2. intros; lra. Qed.
Lemma sub_box3_in a b p : sub_box3 a b -> in_box3 a p -> in_box3 b p.
Proof. unfold sub_box3, in_box3. intros; lra. Qed.
Lemma sub_box2_refl a : sub_box2 a a.
Proof. unfold sub_box2; lra. Qed.
Lemma sub_box3_refl a : sub_box3 a a.
Proof. unfold sub_box3; lra. Qed.
Lemma sub_box2_trans a b c : sub_box2 a b -> sub_box2 b c -> sub_box2 a c.
Proof. unfold sub_box2; intros; lra. Qed.
Lemma sub_box3_trans a b c : sub_box3 a b -> sub_box3 b c -> sub_box3 a c.
Proof. unfold sub_box3; intros; lra. Qed.
Lemma sub_box2_ordered a b : ordered2 a -> sub_box2 a b -> ordered2 b.
Proof. unfold sub_box2, ordered2; intros; lra. Qed.
Lemma sub_box3_ordered a b : ordered3 a -> sub_box3 a b -> ordered3 b.
Proof. unfold sub_box3, ordered3; intros; lra. Qed.

Lemma axd_mono lo hi lo' hi' x : lo' <= lo -> hi <= hi' -> axd lo' hi' x <= axd lo hi x.
Proof.
  intros. pose proof (axd_nonneg lo hi x). pose proof (axd_ge_lo lo hi x). pose proof (axd_ge_hi lo hi x).
  apply axd_le; lra.
Qed.

(* properties of a distance-to-box function used by the generic combinator lemmas *)
Definition Dmono2 (D : RBox2 -> RV2 -> R) := forall a b p, sub_box2 a b -> D b p <= D a p.
Definition Dmono3 (D : RBox3 -> RV3 -> R) := forall a b p, sub_box3 a b -> D b p <= D a p.
Definition Dtrans2 (D : RBox2 -> RV2 -> R) :=
  forall b v p, D (box2_translate b v) p = D b (mkV2 (vx p - vx v) (vy p - vy v)).
Definition Dtrans3 (D : RBox3 -> RV3 -> R) :=
  forall b v p, D (box3_translate b v) p = D b (mkV3 (wx p - wx v) (wy p - wy v) (wz p - wz v)).

Lemma D0_mono2 : Dmono2 D0_2.
Proof. unfold Dmono2, D0_2; intros; lra. Qed.
Lemma D0_mono3 : Dmono3 D0_3.
Proof. unfold Dmono3, D0_3; intros; lra. Qed.
Lemma D0_trans2 : Dtrans2 D0_2.
Proof. unfold Dtrans2, D0_2; intros; reflexivity. Qed.
Lemma D0_trans3 : Dtrans3 D0_3.
Proof. unfold Dtrans3, D0_3; intros; reflexivity. Qed.

Lemma Rmax_mono a b c d : a <= c -> b <= d -> Rmax a b <= Rmax c d.
Proof. intros. pose proof (Rmax_l c d). pose proof (Rmax_r c d). apply Rmax_lub; lra. Qed.
Lemma Rmin_mono a b c d : a <= c -> b <= d -> Rmin a b <= Rmin c d.
Proof. intros. pose proof (Rmin_l a b). pose proof (Rmin_r a b). apply Rmin_glb; lra. Qed.
Lemma Dinf_mono2 : Dmono2 boxdistinf2.
Proof.
  intros a b p (A & B & C & D). unfold boxdistinf2.
  apply Rmax_mono; apply axd_mono; assumption.
Qed.
Lemma Dinf_mono3 : Dmono3 boxdistinf3.
Proof.
  intros a b p (A & B & C & D & E & F). unfold boxdistinf3.
  apply Rmax_mono; [apply Rmax_mono|]; apply axd_mono; assumption.
Qed.
Lemma D2_mono2 : Dmono2 boxdist2.
Proof.
  intros a b p (A & B & C & D). unfold boxdist2. apply sqrt_le_1_alt.
  pose proof (axd_mono _ _ _ _ (vx p) A B). pose proof (axd_mono _ _ _ _ (vy p) C D).
  pose proof (axd_nonneg (vx (b2min b)) (vx (b2max b)) (vx p)).
  pose proof (axd_nonneg (vy (b2min b)) (vy (b2max b)) (vy p)). nra.
Qed.
Lemma D2_mono3 : Dmono3 boxdist3.
Proof.
  intros a b p (A & B & C & D & E & F). unfold boxdist3. apply sqrt_le_1_alt.
  pose proof (axd_mono _ _ _ _ (wx p) A B). pose proof (axd_mono _ _ _ _ (wy p) C D).
  pose proof (axd_mono _ _ _ _ (wz p) E F).
  pose proof (axd_nonneg (wx (b3min b)) (wx (b3max b)) (wx p)).
  pose proof (axd_nonneg (wy (b3min b)) (wy (b3max b)) (wy p)).
  pose proof (axd_nonneg (wz (b3min b)) (wz (b3max b)) (wz p)). nra.
Qed.

Lemma axd_shift lo hi v x : axd (lo + v) (hi + v) x = axd lo hi (x - v).
Proof. unfold axd. f_equal. f_equal; ring. Qed.
Lemma Dinf_trans2 : Dtrans2 boxdistinf2.
Proof. intros b v p. unfold boxdistinf2; cbn. rewrite !axd_shift. reflexivity. Qed.
Lemma Dinf_trans3 : Dtrans3 boxdistinf3.
Proof. intros b v p. unfold boxdistinf3; cbn. rewrite !axd_shift. reflexivity. Qed.
Lemma D2_trans2 : Dtrans2 boxdist2.
Proof. intros b v p. unfold boxdist2; cbn. rewrite !axd_shift. reflexivity. Qed.
Lemma D2_trans3 : Dtrans3 boxdist3.
Proof. intros b v p. unfold boxdist3; cbn. rewrite !axd_shift. reflexivity. Qed.

(* like kinv, but without the normalisation `injection` performs on the object *)
Lemma some_inj {A} (x y : A) : Some x = Some y -> x = y.
Proof. intros H; injection H; auto. Qed.
Ltac kinv' H := kchecks H; apply some_inj in H; rewrite <- H; clear H.
