(* C01 over the reals, part 1: tools and the primitives.
   enc2/enc3 (Sdf/ShapeR.v): the stored box is ordered and every point with a negative value
   lies in it.  The working form of the max-norm class `lbinf` is "slab" form: outside the box
   the value dominates the signed distance to each of the 4/6 face planes. *)
From Coq Require Import Reals Lra Lia List Bool ZArith Psatz.
From Sdfx Require Import Num.Ops Num.RInst Geo.Vec Geo.Box Geo.BoxR Geo.MinMaxR Geo.NormR Geo.Mat
  Sdf.Union2 Sdf.Shape Sdf.ShapeR.
Import ListNotations.
Open Scope R_scope.

(* ------------------------------------------------------------ tactics *)
(* k_xxx args = Some o: walk through the constructor's own parameter checks *)
Ltac kchecks H :=
  repeat match type of H with
  | (if ?c then None else _) = Some _ =>
      let C := fresh "K" in destruct c eqn:C; [discriminate H|]
  end.
Ltac kinv H := kchecks H; injection H as <-.
Ltac bfalse :=
  repeat match goal with
  | H : (_ || _)%bool = false |- _ => apply orb_false_iff in H; destruct H
  | H : Rltb _ _ = false |- _ => apply Rltb_false in H
  | H : Rleb _ _ = false |- _ => apply Rleb_false in H
  | H : Reqb _ _ = false |- _ => apply Reqb_false in H
  | H : Rltb _ _ = true |- _ => apply Rltb_true in H
  | H : Rleb _ _ = true |- _ => apply Rleb_true in H
  | H : Reqb _ _ = true |- _ => apply Reqb_true in H
  end.
Ltac ropen :=
  change (oadd ROps) with Rplus in *; change (osub ROps) with Rminus in *;
  change (omul ROps) with Rmult in *; change (odiv ROps) with Rdiv in *;
  change (oneg ROps) with Ropp in *; change (oabs ROps) with Rabs in *;
  change (osqrt ROps) with sqrt in *; change (omin ROps) with Rmin in *;
  change (omax ROps) with Rmax in *; change (oltb ROps) with Rltb in *;
  change (oleb ROps) with Rleb in *; change (oeqb ROps) with Reqb in *;
  change (o0 ROps) with 0 in *; change (o1 ROps) with 1 in *; change (T ROps) with R in *.

Lemma half_eq : @half ROps = / 2.
Proof. unfold half, two; cbn. field. Qed.
Lemma k05_eq : @k05 ROps = / 2.
Proof. apply half_eq. Qed.
Lemma two_eq : @two ROps = 2.
Proof. unfold two; cbn. ring. Qed.

Lemma Rabs_le_inv x a : Rabs x <= a -> - a <= x <= a.
Proof. unfold Rabs; destruct (Rcase_abs x); lra. Qed.
Lemma Rabs_lt_inv x a : Rabs x < a -> - a < x < a.
Proof. unfold Rabs; destruct (Rcase_abs x); lra. Qed.
Lemma Rabs_ge_l x : x <= Rabs x.
Proof. apply Rle_abs. Qed.
Lemma Rabs_ge_r x : - x <= Rabs x.
Proof. rewrite <- Rabs_Ropp. apply Rle_abs. Qed.

(* ------------------------------------------------------------ slab form of lbinf *)
Definition slab2 (b : RBox2) (f : RV2 -> R) (p : RV2) : Prop :=
  vx (b2min b) - vx p <= f p /\ vx p - vx (b2max b) <= f p /\
  vy (b2min b) - vy p <= f p /\ vy p - vy (b2max b) <= f p.
Definition slab3 (b : RBox3) (f : RV3 -> R) (p : RV3) : Prop :=
  wx (b3min b) - wx p <= f p /\ wx p - wx (b3max b) <= f p /\
  wy (b3min b) - wy p <= f p /\ wy p - wy (b3max b) <= f p /\
  wz (b3min b) - wz p <= f p /\ wz p - wz (b3max b) <= f p.

Lemma axd_le lo hi x v : 0 <= v -> lo - x <= v -> x - hi <= v -> axd lo hi x <= v.
Proof. intros. unfold axd. apply Rmax_lub; [lra | apply Rmax_lub; lra]. Qed.
Lemma axd_ge_lo lo hi x : lo - x <= axd lo hi x.
Proof. unfold axd. eapply Rle_trans; [apply Rmax_l | apply Rmax_r]. Qed.
Lemma axd_ge_hi lo hi x : x - hi <= axd lo hi x.
Proof. unfold axd. eapply Rle_trans; [apply Rmax_r with (x := lo - x) | apply Rmax_r]. Qed.

Lemma out2_pos b f p : ~ in_box2 b p -> slab2 b f p -> 0 < f p.
Proof.
  unfold in_box2, slab2. intros Ho (A & B & C & D).
  destruct (Rle_dec (vx (b2min b)) (vx p)), (Rle_dec (vx p) (vx (b2max b))),
           (Rle_dec (vy (b2min b)) (vy p)), (Rle_dec (vy p) (vy (b2max b)));
  first [lra | exfalso; apply Ho; lra].
Qed.
Lemma out3_pos b f p : ~ in_box3 b p -> slab3 b f p -> 0 < f p.
Proof.
  unfold in_box3, slab3. intros Ho (A & B & C & D & E & F).
  destruct (Rle_dec (wx (b3min b)) (wx p)), (Rle_dec (wx p) (wx (b3max b))),
           (Rle_dec (wy (b3min b)) (wy p)), (Rle_dec (wy p) (wy (b3max b))),
           (Rle_dec (wz (b3min b)) (wz p)), (Rle_dec (wz p) (wz (b3max b)));
  first [lra | exfalso; apply Ho; lra].
Qed.

Lemma lbinf2_intro o : ordered2 (bb2 o) ->
  (forall p, ~ in_box2 (bb2 o) p -> slab2 (bb2 o) (ev2 o) p) -> lbinf_2 o.
Proof.
  intros Ho H. split; [exact Ho|]. intros p.
  destruct (classic_in_box2 (bb2 o) p) as [Hin|Hout]; [now right | left].
  pose proof (H p Hout) as S. pose proof (out2_pos _ _ _ Hout S) as Hp.
  destruct S as (A & B & C & D). unfold boxdistinf2. apply Rmax_lub; apply axd_le; lra.
Qed.
Lemma lbinf2_elim o p : lbinf_2 o -> ~ in_box2 (bb2 o) p -> slab2 (bb2 o) (ev2 o) p.
Proof.
  intros [_ H] Hout. destruct (H p) as [Hd|Hin]; [|contradiction].
  unfold boxdistinf2 in Hd. unfold slab2.
  pose proof (Rmax_l (axd (vx (b2min (bb2 o))) (vx (b2max (bb2 o))) (vx p)) (axd (vy (b2min (bb2 o))) (vy (b2max (bb2 o))) (vy p))).
  pose proof (Rmax_r (axd (vx (b2min (bb2 o))) (vx (b2max (bb2 o))) (vx p)) (axd (vy (b2min (bb2 o))) (vy (b2max (bb2 o))) (vy p))).
  pose proof (axd_ge_lo (vx (b2min (bb2 o))) (vx (b2max (bb2 o))) (vx p)).
  pose proof (axd_ge_hi (vx (b2min (bb2 o))) (vx (b2max (bb2 o))) (vx p)).
  pose proof (axd_ge_lo (vy (b2min (bb2 o))) (vy (b2max (bb2 o))) (vy p)).
  pose proof (axd_ge_hi (vy (b2min (bb2 o))) (vy (b2max (bb2 o))) (vy p)).
  repeat split; lra.
Qed.
Lemma lbinf3_intro o : ordered3 (bb3 o) ->
  (forall p, ~ in_box3 (bb3 o) p -> slab3 (bb3 o) (ev3 o) p) -> lbinf_3 o.
Proof.
  intros Ho H. split; [exact Ho|]. intros p.
  destruct (classic_in_box3 (bb3 o) p) as [Hin|Hout]; [now right | left].
  pose proof (H p Hout) as S. pose proof (out3_pos _ _ _ Hout S) as Hp.
  destruct S as (A & B & C & D & E & F). unfold boxdistinf3. apply Rmax_lub; [apply Rmax_lub|]; apply axd_le; lra.
Qed.
Lemma lbinf3_elim o p : lbinf_3 o -> ~ in_box3 (bb3 o) p -> slab3 (bb3 o) (ev3 o) p.
Proof.
  intros [_ H] Hout. destruct (H p) as [Hd|Hin]; [|contradiction].
  unfold boxdistinf3 in Hd. unfold slab3.
  pose proof (axd_ge_lo (wx (b3min (bb3 o))) (wx (b3max (bb3 o))) (wx p)).
  pose proof (axd_ge_hi (wx (b3min (bb3 o))) (wx (b3max (bb3 o))) (wx p)).
  pose proof (axd_ge_lo (wy (b3min (bb3 o))) (wy (b3max (bb3 o))) (wy p)).
  pose proof (axd_ge_hi (wy (b3min (bb3 o))) (wy (b3max (bb3 o))) (wy p)).
  pose proof (axd_ge_lo (wz (b3min (bb3 o))) (wz (b3max (bb3 o))) (wz p)).
  pose proof (axd_ge_hi (wz (b3min (bb3 o))) (wz (b3max (bb3 o))) (wz p)).
  set (ax := axd (wx (b3min (bb3 o))) (wx (b3max (bb3 o))) (wx p)) in *.
  set (ay := axd (wy (b3min (bb3 o))) (wy (b3max (bb3 o))) (wy p)) in *.
  set (az := axd (wz (b3min (bb3 o))) (wz (b3max (bb3 o))) (wz p)) in *.
  pose proof (Rmax_l (Rmax ax ay) az). pose proof (Rmax_r (Rmax ax ay) az).
  pose proof (Rmax_l ax ay). pose proof (Rmax_r ax ay).
  repeat split; lra.
Qed.

(* the whole-space slab inequality gives both the class and the enclosure *)
Lemma slab_all_lbinf2 o : ordered2 (bb2 o) -> (forall p, slab2 (bb2 o) (ev2 o) p) -> lbinf_2 o.
Proof. intros Ho H. apply lbinf2_intro; auto. Qed.
Lemma slab_all_lbinf3 o : ordered3 (bb3 o) -> (forall p, slab3 (bb3 o) (ev3 o) p) -> lbinf_3 o.
Proof. intros Ho H. apply lbinf3_intro; auto. Qed.

Lemma boxdistinf3_pos b p : ~ in_box3 b p -> 0 < boxdistinf3 b p.
Proof.
  intros H. unfold boxdistinf3.
  set (ax := axd (wx (b3min b)) (wx (b3max b)) (wx p)).
  set (ay := axd (wy (b3min b)) (wy (b3max b)) (wy p)).
  set (az := axd (wz (b3min b)) (wz (b3max b)) (wz p)).
  pose proof (Rmax_l (Rmax ax ay) az). pose proof (Rmax_r (Rmax ax ay) az).
  pose proof (Rmax_l ax ay). pose proof (Rmax_r ax ay).
  destruct (Rle_dec (wx (b3min b)) (wx p)), (Rle_dec (wx p) (wx (b3max b))),
           (Rle_dec (wy (b3min b)) (wy p)), (Rle_dec (wy p) (wy (b3max b))),
           (Rle_dec (wz (b3min b)) (wz p)), (Rle_dec (wz p) (wz (b3max b)));
  try (exfalso; apply H; unfold in_box3; lra);
  first [ assert (0 < ax) by (apply axd_pos; lra); lra
        | assert (0 < ay) by (apply axd_pos; lra); lra
        | assert (0 < az) by (apply axd_pos; lra); lra ].
Qed.
Lemma lbinf3_enc o : lbinf_3 o -> enc3 o.
Proof.
  intros [Ho H]. split; [exact Ho|]. intros p Hp. destruct (H p) as [Hd|Hin]; [|exact Hin].
  destruct (classic_in_box3 (bb3 o) p) as [Hin|Hout]; [exact Hin|].
  pose proof (boxdistinf3_pos _ _ Hout). lra.
Qed.

(* the Euclidean class is contained in the max-norm class *)
Lemma boxdistinf2_le b p : boxdistinf2 b p <= boxdist2 b p.
Proof.
  unfold boxdistinf2, boxdist2.
  set (ax := axd _ _ (vx p)). set (ay := axd _ _ (vy p)).
  assert (0 <= ax) by apply axd_nonneg. assert (0 <= ay) by apply axd_nonneg.
  apply Rmax_lub; (rewrite <- (sqrt_square _ ltac:(eassumption)) at 1; apply sqrt_le_1_alt; nra).
Qed.
Lemma boxdistinf3_le b p : boxdistinf3 b p <= boxdist3 b p.
Proof.
  unfold boxdistinf3, boxdist3.
  set (ax := axd _ _ (wx p)). set (ay := axd _ _ (wy p)). set (az := axd _ _ (wz p)).
  assert (0 <= ax) by apply axd_nonneg. assert (0 <= ay) by apply axd_nonneg. assert (0 <= az) by apply axd_nonneg.
  apply Rmax_lub; [apply Rmax_lub|]; (rewrite <- (sqrt_square _ ltac:(eassumption)) at 1; apply sqrt_le_1_alt; nra).
Qed.
Lemma lb2_lbinf2 o : lb2_2 o -> lbinf_2 o.
Proof.
  intros [Ho H]. split; [exact Ho|]. intros p. destruct (H p) as [Hd|Hin]; [left | now right].
  pose proof (boxdistinf2_le (bb2 o) p). lra.
Qed.
Lemma lb2_lbinf3 o : lb2_3 o -> lbinf_3 o.
Proof.
  intros [Ho H]. split; [exact Ho|]. intros p. destruct (H p) as [Hd|Hin]; [left | now right].
  pose proof (boxdistinf3_le (bb3 o) p). lra.
Qed.
Lemma lb2_enc2 o : lb2_2 o -> enc2 o.
Proof. intros H. apply lbinf2_enc, lb2_lbinf2, H. Qed.
Lemma lb2_enc3 o : lb2_3 o -> enc3 o.
Proof. intros H. apply lbinf3_enc, lb2_lbinf3, H. Qed.

(* the distance to a box is at most the distance to any of its points *)
Lemma axd_le_abs lo hi x q : lo <= q <= hi -> axd lo hi x <= Rabs (x - q).
Proof.
  intros Hq. pose proof (Rabs_ge_l (x - q)). pose proof (Rabs_ge_r (x - q)). pose proof (Rabs_pos (x - q)).
  apply axd_le; lra.
Qed.
Lemma sq_le_abs a b : 0 <= a -> a <= Rabs b -> a * a <= b * b.
Proof. intros Ha H. replace (b * b) with (Rabs b * Rabs b) by (unfold Rabs; destruct (Rcase_abs b); ring). nra. Qed.
Lemma boxdist2_le_dist b p q : in_box2 b q -> boxdist2 b p <= dist2 p q.
Proof.
  intros [Hx Hy]. unfold boxdist2, dist2, len2, sub2; cbn [vx vy]. apply sqrt_le_1_alt.
  pose proof (axd_le_abs _ _ (vx p) _ Hx). pose proof (axd_le_abs _ _ (vy p) _ Hy).
  pose proof (sq_le_abs _ _ (axd_nonneg _ _ _) H). pose proof (sq_le_abs _ _ (axd_nonneg _ _ _) H0). lra.
Qed.
Lemma boxdist3_le_dist b p q : in_box3 b q -> boxdist3 b p <= dist3 p q.
Proof.
  intros (Hx & Hy & Hz). unfold boxdist3, dist3, len3, sub3; cbn [wx wy wz]. apply sqrt_le_1_alt.
  pose proof (axd_le_abs _ _ (wx p) _ Hx). pose proof (axd_le_abs _ _ (wy p) _ Hy).
  pose proof (axd_le_abs _ _ (wz p) _ Hz).
  pose proof (sq_le_abs _ _ (axd_nonneg _ _ _) H). pose proof (sq_le_abs _ _ (axd_nonneg _ _ _) H0).
  pose proof (sq_le_abs _ _ (axd_nonneg _ _ _) H1). lra.
Qed.

(* ------------------------------------------------------------ Circle2D, Sphere3D *)
Lemma ball2_near r (p : RV2) : 0 <= r -> r < len2 p ->
  exists q, len2 q <= r /\ dist2 p q = len2 p - r.
Proof.
  intros Hr Hp. set (l := len2 p). assert (Hl : 0 < l) by (unfold l; lra).
  exists (mkV2 (vx p * (r / l)) (vy p * (r / l))).
  pose proof (len2_sq p) as S. fold l in S.
  split.
  - apply len2_le; [lra|]; cbn [vx vy].
    replace (vx p * (r / l) * (vx p * (r / l)) + vy p * (r / l) * (vy p * (r / l)))
      with ((vx p * vx p + vy p * vy p) * (r / l * (r / l))) by ring.
    rewrite <- S. replace (l * l * (r / l * (r / l))) with (r * r) by (field; lra). lra.
  - unfold dist2. apply Rle_antisym.
    + apply len2_le; [lra|]; cbn [sub2 vx vy].
      replace ((vx p - vx p * (r / l)) * (vx p - vx p * (r / l)) + (vy p - vy p * (r / l)) * (vy p - vy p * (r / l)))
        with ((vx p * vx p + vy p * vy p) * ((1 - r / l) * (1 - r / l))) by ring.
      rewrite <- S. replace (l * l * ((1 - r / l) * (1 - r / l))) with ((l - r) * (l - r)) by (field; lra). lra.
    + apply le_len2; [lra|]; cbn [sub2 vx vy].
      replace ((vx p - vx p * (r / l)) * (vx p - vx p * (r / l)) + (vy p - vy p * (r / l)) * (vy p - vy p * (r / l)))
        with ((vx p * vx p + vy p * vy p) * ((1 - r / l) * (1 - r / l))) by ring.
      rewrite <- S. replace (l * l * ((1 - r / l) * (1 - r / l))) with ((l - r) * (l - r)) by (field; lra). lra.
Qed.
Lemma ball3_near r (p : RV3) : 0 <= r -> r < len3 p ->
  exists q, len3 q <= r /\ dist3 p q = len3 p - r.
Proof.
  intros Hr Hp. set (l := len3 p). assert (Hl : 0 < l) by (unfold l; lra).
  exists (mkV3 (wx p * (r / l)) (wy p * (r / l)) (wz p * (r / l))).
  pose proof (len3_sq p) as S. fold l in S.
  assert (E1 : forall k, wx p * k * (wx p * k) + wy p * k * (wy p * k) + wz p * k * (wz p * k) = l * l * (k * k))
    by (intros; rewrite S; ring).
  assert (E2 : forall k, (wx p - wx p * k) * (wx p - wx p * k) + (wy p - wy p * k) * (wy p - wy p * k)
               + (wz p - wz p * k) * (wz p - wz p * k) = l * l * ((1 - k) * (1 - k)))
    by (intros; rewrite S; ring).
  split.
  - apply len3_le; [lra|]; cbn [wx wy wz]. rewrite E1.
    replace (l * l * (r / l * (r / l))) with (r * r) by (field; lra). lra.
  - unfold dist3. apply Rle_antisym.
    + apply len3_le; [lra|]; cbn [sub3 wx wy wz]. rewrite E2.
      replace (l * l * ((1 - r / l) * (1 - r / l))) with ((l - r) * (l - r)) by (field; lra). lra.
    + apply le_len3; [lra|]; cbn [sub3 wx wy wz]. rewrite E2.
      replace (l * l * ((1 - r / l) * (1 - r / l))) with ((l - r) * (l - r)) by (field; lra). lra.
Qed.

Lemma circle_lb2 r o : @k_circle ROps r = Some o -> lb2_2 o.
Proof.
  unfold k_circle; cbn. intros H. kinv H. bfalse. cbn [bb2 ev2].
  split; [unfold ordered2; cbn; lra|]. intros p. fold (len2 p).
  destruct (Rle_dec (len2 p) r) as [Hin|Hout].
  - right. pose proof (abs_le_len2_x p). pose proof (abs_le_len2_y p).
    assert (Ax : Rabs (vx p) <= r) by lra. assert (Ay : Rabs (vy p) <= r) by lra.
    apply Rabs_le_inv in Ax, Ay. unfold in_box2; cbn. lra.
  - left. destruct (ball2_near r p) as (q & Hq & Hd); [lra | lra|]. rewrite <- Hd.
    apply boxdist2_le_dist. pose proof (abs_le_len2_x q). pose proof (abs_le_len2_y q).
    assert (Ax : Rabs (vx q) <= r) by lra. assert (Ay : Rabs (vy q) <= r) by lra.
    apply Rabs_le_inv in Ax, Ay. unfold in_box2; cbn. lra.
Qed.
Lemma circle_enc r o : @k_circle ROps r = Some o -> enc2 o.
Proof. intros H. apply lb2_enc2, (circle_lb2 _ _ H). Qed.

Lemma sphere_lb2 r o : @k_sphere ROps r = Some o -> lb2_3 o.
Proof.
  unfold k_sphere; cbn. intros H. kinv H. bfalse. cbn [bb3 ev3].
  split; [unfold ordered3; cbn; lra|]. intros p. fold (len3 p).
  destruct (Rle_dec (len3 p) r) as [Hin|Hout].
  - right. pose proof (abs_le_len3_x p). pose proof (abs_le_len3_y p). pose proof (abs_le_len3_z p).
    assert (Ax : Rabs (wx p) <= r) by lra. assert (Ay : Rabs (wy p) <= r) by lra.
    assert (Az : Rabs (wz p) <= r) by lra.
    apply Rabs_le_inv in Ax, Ay, Az. unfold in_box3; cbn. lra.
  - left. destruct (ball3_near r p) as (q & Hq & Hd); [lra | lra|]. rewrite <- Hd.
    apply boxdist3_le_dist. pose proof (abs_le_len3_x q). pose proof (abs_le_len3_y q).
    pose proof (abs_le_len3_z q).
    assert (Ax : Rabs (wx q) <= r) by lra. assert (Ay : Rabs (wy q) <= r) by lra.
    assert (Az : Rabs (wz q) <= r) by lra.
    apply Rabs_le_inv in Ax, Ay, Az. unfold in_box3; cbn. lra.
Qed.
Lemma sphere_enc r o : @k_sphere ROps r = Some o -> enc3 o.
Proof. intros H. apply lb2_enc3, (sphere_lb2 _ _ H). Qed.
