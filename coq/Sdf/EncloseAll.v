(* C01 over the reals, part 10: well-formed expression trees and the main theorem
   C01_all_compositions by mutual structural induction (nested lists under Union). *)
From Coq Require Import Reals Lra Lia List Bool ZArith Psatz.
From Sdfx Require Import Num.Ops Num.RInst Geo.Vec Geo.Box Geo.BoxR Geo.MinMaxR Geo.NormR Geo.Mat
  Sdf.Union2 Sdf.Shape Sdf.ShapeR Sdf.EncloseR Sdf.EncloseComb Sdf.EncloseXform Sdf.EncloseExtr
  Sdf.EncloseRev Sdf.EncloseRot Sdf.EncloseSlice Sdf.EncloseCone Sdf.EncloseRigid Sdf.EncloseBox.
Import ListNotations.
Open Scope R_scope.

Notation RS2 := (Shape2 ROps).
Notation RS3 := (Shape3 ROps).

Section Allp.
  Context {A : Type} (P : A -> Prop).
  Fixpoint allp (l : list A) : Prop := match l with [] => True | x :: r => P x /\ allp r end.
  Lemma allp_in l : allp l -> forall x, In x l -> P x.
  Proof. induction l as [|a l IH]; cbn; intros H x []; [subst; tauto | apply IH; tauto]. Qed.
End Allp.

(* ------------------------------------------------------------ the two operand classes, syntactically *)
Definition is_translate2 (m : RM) : Prop := exists v : RV2, m = @mk_translate2d ROps v.
Definition is_translate3 (m : RM) : Prop := exists v : RV3, m = @mk_translate3d ROps v.

(* Lb2: outside its box the field is at least the Euclidean distance to the box *)
Fixpoint cl2_2 (s : RS2) : Prop :=
  match s with
  | Circle _ => True
  | Box2D _ round => 0 <= round
  | Intersect2 _ s0 _ | Difference2 _ s0 _ => cl2_2 s0
  | Cut2 s _ _ | ScaleUniform2 s _ | Elongate2 s _ => cl2_2 s
  | Transform2 s m => cl2_2 s /\ rigid33 m
  | Union2 _ l => allp cl2_2 l
  | _ => False
  end.
Fixpoint cl2_3 (s : RS3) : Prop :=
  match s with
  | Sphere _ | Box3D _ _ | Cylinder _ _ _ => True
  | Intersect3 _ s0 _ | Difference3 _ s0 _ => cl2_3 s0
  | Cut3 s _ _ | ScaleUniform3 s _ | Elongate3 s _ => cl2_3 s
  | Transform3 s m => cl2_3 s /\ rigid44 m
  | Union3 _ l => allp cl2_3 l
  | _ => False
  end.
(* LbInf: the same with the max-norm; closed under extrusion, only under translations *)
Fixpoint cinf2 (s : RS2) : Prop :=
  match s with
  | Circle _ | Box2D _ _ | Line2D _ _ => True
  | Offset2 s off => (cinf2 s \/ cl2_2 s) /\ 0 <= off
  | Intersect2 _ s0 _ | Difference2 _ s0 _ => cinf2 s0
  | Cut2 s _ _ | ScaleUniform2 s _ | Elongate2 s _ => cinf2 s
  | Transform2 s m => (cinf2 s /\ is_translate2 m) \/ (cl2_2 s /\ rigid33 m)
  | Union2 _ l => allp cinf2 l
  | _ => False
  end.
Fixpoint cinf3 (s : RS3) : Prop :=
  match s with
  | Sphere _ | Box3D _ _ | Cylinder _ _ _ | Cone _ _ _ _ => True
  | Revolve s theta => (cinf2 s \/ cl2_2 s) /\ Rfmod (Rabs theta) (@tau ROps) = 0   (* full revolutions only *)
  | Extrude s _ | ExtrudeRounded s _ _ => cinf2 s \/ cl2_2 s
  | Loft s0 s1 _ _ => (cinf2 s0 \/ cl2_2 s0) /\ (cinf2 s1 \/ cl2_2 s1)
  | Intersect3 _ s0 _ | Difference3 _ s0 _ => cinf3 s0
  | Cut3 s _ _ | ScaleUniform3 s _ | Elongate3 s _ => cinf3 s
  | Transform3 s m => (cinf3 s /\ is_translate3 m) \/ (cl2_3 s /\ rigid44 m)
  | Union3 _ l => allp cinf3 l
  | Offset3 s off => (cinf3 s \/ cl2_3 s) /\ 0 <= off
  | Shell3 s _ => cinf3 s \/ cl2_3 s
  | _ => False
  end.

(* ------------------------------------------------------------ well-formed trees: exactly the side
   conditions of the per-constructor lemmas (what the Go constructors do not check themselves) *)
Fixpoint wf2 (s : RS2) : Prop :=
  match s with
  | Circle _ => True
  | Box2D size _ => 0 <= vx size /\ 0 <= vy size
  | Line2D l round => 0 <= l /\ 0 <= round
  | Offset2 s off => wf2 s /\ 0 <= off /\ (cinf2 s \/ cl2_2 s)
  | Intersect2 m s0 _ | Difference2 m s0 _ => max_ok m /\ wf2 s0
  | Cut2 s _ _ | Elongate2 s _ | RotateCopy2 s _ => wf2 s
  | Transform2 s m => wf2 s /\ affine33 m /\ @m33_determinant ROps m <> 0
  | ScaleUniform2 s k => wf2 s /\ 0 < k
  | Array2 mk s _ _ _ => mk = MinDef /\ wf2 s
  | RotateUnion2 mk s _ step => mk = MinDef /\ wf2 s /\ affine33 step /\ @m33_determinant ROps step <> 0
  | Union2 mk l => mk = MinDef /\ allp wf2 l
  | Slice2 s _ n => wf3 s /\ 0 < dot3 n n
  end
with wf3 (s : RS3) : Prop :=
  match s with
  | Sphere _ | Box3D _ _ | Cylinder _ _ _ => True
  | Cone _ r0 r1 _ => 0 <= r0 /\ 0 <= r1
  | Revolve s _ => wf2 s
  | Extrude s h | TwistExtrude s h _ => wf2 s /\ 0 <= h
  | ScaleExtrude s h sc | ScaleTwistExtrude s h _ sc => wf2 s /\ 0 < h /\ 0 < vx sc /\ 0 < vy sc
  | ExtrudeRounded s h round => wf2 s /\ 0 <= h /\ (round = 0 \/ cinf2 s \/ cl2_2 s)
  | Loft s0 s1 _ round => wf2 s0 /\ wf2 s1 /\ (round = 0 \/ ((cinf2 s0 \/ cl2_2 s0) /\ (cinf2 s1 \/ cl2_2 s1)))
  | Transform3 s m => wf3 s /\ affine44 m /\ @m44_determinant ROps m <> 0
  | ScaleUniform3 s k => wf3 s /\ 0 < k
  | Union3 mk l => mk = MinDef /\ allp wf3 l
  | Difference3 m s0 _ | Intersect3 m s0 _ => max_ok m /\ wf3 s0
  | Cut3 s _ _ | Elongate3 s _ | RotateCopy3 s _ => wf3 s
  | Array3 mk s _ _ _ _ => mk = MinDef /\ wf3 s
  | RotateUnion3 mk s _ step => mk = MinDef /\ wf3 s /\ affine44 step /\ @m44_determinant ROps step <> 0
  | Offset3 s off => wf3 s /\ 0 <= off /\ (cinf3 s \/ cl2_3 s)
  | Shell3 s _ => wf3 s /\ (cinf3 s \/ cl2_3 s)
  end.

(* ------------------------------------------------------------ the invariant carried by the induction *)
Definition inv2 (ci cl : Prop) (o : RObj2) : Prop := enc2 o /\ (ci -> lbinf_2 o) /\ (cl -> lb2_2 o).
Definition inv3 (ci cl : Prop) (o : RObj3) : Prop := enc3 o /\ (ci -> lbinf_3 o) /\ (cl -> lb2_3 o).

Definition goodD2 (D : RBox2 -> RV2 -> R) : Prop := Dmono2 D /\ Dtrans2 D /\ Dscale2 D.
Definition goodD3 (D : RBox3 -> RV3 -> R) : Prop := Dmono3 D /\ Dtrans3 D /\ Dscale3 D.
Lemma good0_2 : goodD2 D0_2. Proof. split; [apply D0_mono2 | split; [apply D0_trans2 | apply D0_scale2]]. Qed.
Lemma goodinf_2 : goodD2 boxdistinf2. Proof. split; [apply Dinf_mono2 | split; [apply Dinf_trans2 | apply Dinf_scale2]]. Qed.
Lemma good2_2 : goodD2 boxdist2. Proof. split; [apply D2_mono2 | split; [apply D2_trans2 | apply D2_scale2]]. Qed.
Lemma good0_3 : goodD3 D0_3. Proof. split; [apply D0_mono3 | split; [apply D0_trans3 | apply D0_scale3]]. Qed.
Lemma goodinf_3 : goodD3 boxdistinf3. Proof. split; [apply Dinf_mono3 | split; [apply Dinf_trans3 | apply Dinf_scale3]]. Qed.
Lemma good2_3 : goodD3 boxdist3. Proof. split; [apply D2_mono3 | split; [apply D2_trans3 | apply D2_scale3]]. Qed.

(* a constructor that maps every class to itself *)
Lemma tri2 (s o : RObj2) (ci cl ci' cl' : Prop) :
  (forall D, goodD2 D -> cls2 D s -> cls2 D o) -> (ci' -> ci) -> (cl' -> cl) -> inv2 ci cl s -> inv2 ci' cl' o.
Proof.
  intros G Hi Hl (E & I & L). split; [|split].
  - apply enc2_cls, (G _ good0_2), enc2_cls, E.
  - intros c. apply (G _ goodinf_2), I, Hi, c.
  - intros c. apply (G _ good2_2), L, Hl, c.
Qed.
Lemma tri3 (s o : RObj3) (ci cl ci' cl' : Prop) :
  (forall D, goodD3 D -> cls3 D s -> cls3 D o) -> (ci' -> ci) -> (cl' -> cl) -> inv3 ci cl s -> inv3 ci' cl' o.
Proof.
  intros G Hi Hl (E & I & L). split; [|split].
  - apply enc3_cls, (G _ good0_3), enc3_cls, E.
  - intros c. apply (G _ goodinf_3), I, Hi, c.
  - intros c. apply (G _ good2_3), L, Hl, c.
Qed.
(* only the enclosure is claimed for the result *)
Lemma enc_only2 o : enc2 o -> inv2 False False o.
Proof. intros E. split; [exact E | split; intros []]. Qed.
Lemma enc_only3 o : enc3 o -> inv3 False False o.
Proof. intros E. split; [exact E | split; intros []]. Qed.
Lemma inv2_lbinf ci cl o : inv2 ci cl o -> ci \/ cl -> lbinf_2 o.
Proof. intros (_ & I & L) [c|c]; [apply I, c | apply lb2_lbinf2, L, c]. Qed.
Lemma inv3_lbinf ci cl o : inv3 ci cl o -> ci \/ cl -> lbinf_3 o.
Proof. intros (_ & I & L) [c|c]; [apply I, c | apply lb2_lbinf3, L, c]. Qed.
(* the result is in lbinf (hence enclosed), not claimed to be in lb2 *)
Lemma inf_only2 (ci : Prop) o : lbinf_2 o -> inv2 ci False o.
Proof. intros H. split; [apply lbinf2_enc, H | split; [intros _; exact H | intros []]]. Qed.
Lemma inf_only3 (ci : Prop) o : lbinf_3 o -> inv3 ci False o.
Proof. intros H. split; [apply lbinf3_enc, H | split; [intros _; exact H | intros []]]. Qed.

(* ------------------------------------------------------------ build: inversion *)
Lemma obind_some {A B} (x : option A) (f : A -> option B) b :
  @obind A B x f = Some b -> exists a, x = Some a /\ f a = Some b.
Proof. destruct x as [a|]; cbn; [intros H; exists a; auto | discriminate]. Qed.
Lemma omap_all_some {A B} (f : A -> option B) (l : list A) os :
  @omap_all B (map f l) = Some os -> forall o, In o os -> exists s, In s l /\ f s = Some o.
Proof.
  revert os; induction l as [|a l IH]; cbn [map omap_all]; intros os H.
  - injection H as <-. intros o [].
  - apply obind_some in H. destruct H as (b & Hb & H). apply obind_some in H. destruct H as (r & Hr & H).
    injection H as <-. intros o [<-|Ho]; [exists a; split; [now left | exact Hb]|].
    destruct (IH _ Hr _ Ho) as (s & Hs & E). exists s; split; [now right | exact E].
Qed.

(* ------------------------------------------------------------ the main theorem *)
Definition P2 (s : RS2) : Prop := forall o, wf2 s -> @build2 ROps s = Some o -> inv2 (cinf2 s) (cl2_2 s) o.
Definition P3 (s : RS3) : Prop := forall o, wf3 s -> @build3 ROps s = Some o -> inv3 (cinf3 s) (cl2_3 s) o.

Lemma union2_step l mk os o : Forall P2 l -> mk = MinDef -> allp wf2 l ->
  omap_all (map (@build2 ROps) l) = Some os -> @k_union2 ROps mk os = Some o ->
  inv2 (allp cinf2 l) (allp cl2_2 l) o.
Proof.
  intros F -> W Hos Hk. rewrite Forall_forall in F.
  assert (X : forall x, In x os -> exists s, In s l /\ inv2 (cinf2 s) (cl2_2 s) x).
  { intros x Hx. destruct (omap_all_some _ _ _ Hos x Hx) as (s & Hs & E). exists s. split; [exact Hs|].
    apply (F s Hs x); [apply (allp_in _ _ W), Hs | exact E]. }
  split; [|split].
  - apply union2_enc with os; [|exact Hk]. intros x Hx. destruct (X x Hx) as (s & _ & I). apply I.
  - intros c. apply union2_lbinf with os; [|exact Hk]. intros x Hx. destruct (X x Hx) as (s & Hs & (_ & I & _)).
    apply I, (allp_in _ _ c), Hs.
  - intros c. apply union2_lb2 with os; [|exact Hk]. intros x Hx. destruct (X x Hx) as (s & Hs & (_ & _ & L)).
    apply L, (allp_in _ _ c), Hs.
Qed.
Lemma union3_step l mk os o : Forall P3 l -> mk = MinDef -> allp wf3 l ->
  omap_all (map (@build3 ROps) l) = Some os -> @k_union3 ROps mk os = Some o ->
  inv3 (allp cinf3 l) (allp cl2_3 l) o.
Proof.
  intros F -> W Hos Hk. rewrite Forall_forall in F.
  assert (X : forall x, In x os -> exists s, In s l /\ inv3 (cinf3 s) (cl2_3 s) x).
  { intros x Hx. destruct (omap_all_some _ _ _ Hos x Hx) as (s & Hs & E). exists s. split; [exact Hs|].
    apply (F s Hs x); [apply (allp_in _ _ W), Hs | exact E]. }
  split; [|split].
  - apply union3_enc with os; [|exact Hk]. intros x Hx. destruct (X x Hx) as (s & _ & I). apply I.
  - intros c. apply union3_lbinf with os; [|exact Hk]. intros x Hx. destruct (X x Hx) as (s & Hs & (_ & I & _)).
    apply I, (allp_in _ _ c), Hs.
  - intros c. apply union3_lb2 with os; [|exact Hk]. intros x Hx. destruct (X x Hx) as (s & Hs & (_ & _ & L)).
    apply L, (allp_in _ _ c), Hs.
Qed.

Lemma transform2_step s (m : RM) o1 o : affine33 m -> @m33_determinant ROps m <> 0 ->
  @k_transform2 ROps o1 m = Some o -> inv2 (cinf2 s) (cl2_2 s) o1 ->
  inv2 ((cinf2 s /\ is_translate2 m) \/ (cl2_2 s /\ rigid33 m)) (cl2_2 s /\ rigid33 m) o.
Proof.
  intros Ha Hd Hk (E & I & L). split; [|split].
  - eapply transform2_enc; eassumption.
  - intros [[c [v ->]]|[c Hr]].
    + apply (transform2_translate_cls boxdistinf2 v o1 o Dinf_trans2 Hk), I, c.
    + apply lb2_lbinf2. eapply transform2_rigid_lb2; [exact Hr | exact Hk | apply L, c].
  - intros [c Hr]. eapply transform2_rigid_lb2; [exact Hr | exact Hk | apply L, c].
Qed.
Lemma transform3_step s (m : RM) o1 o : affine44 m -> @m44_determinant ROps m <> 0 ->
  @k_transform3 ROps o1 m = Some o -> inv3 (cinf3 s) (cl2_3 s) o1 ->
  inv3 ((cinf3 s /\ is_translate3 m) \/ (cl2_3 s /\ rigid44 m)) (cl2_3 s /\ rigid44 m) o.
Proof.
  intros Ha Hd Hk (E & I & L). split; [|split].
  - eapply transform3_enc; eassumption.
  - intros [[c [v ->]]|[c Hr]].
    + apply (transform3_translate_cls boxdistinf3 v o1 o Dinf_trans3 Hk), I, c.
    + apply lb2_lbinf3. eapply transform3_rigid_lb2; [exact Hr | exact Hk | apply L, c].
  - intros [c Hr]. eapply transform3_rigid_lb2; [exact Hr | exact Hk | apply L, c].
Qed.

Ltac ob H := let o1 := fresh "o1" in let Hb := fresh "Hb" in
  apply obind_some in H; destruct H as (o1 & Hb & H).

Lemma main2 (s : RS2) : P2 s
with main3 (s : RS3) : P3 s.
Proof.
  - destruct s as [r|size round|l round|s off|m s0 s1|m s0 s1|s a v|s m|s k|mk s nx ny step|mk s num step|s n|s h|mk l|s a n];
      intros o W H; cbn [wf2 build2 cinf2 cl2_2] in *.
    + clear main2 main3. split; [eapply circle_enc, H | split; intros _; [apply lb2_lbinf2|]; eapply circle_lb2, H].
    + clear main2 main3. destruct W as [Hx Hy].
      split; [exact (box2_enc _ _ _ Hx Hy H) | split; [intros _; exact (box2_lbinf _ _ _ Hx Hy H) | intros Hr; exact (box2_lb2 _ _ _ Hx Hy Hr H)]].
    + clear main2 main3. destruct W as [Hl Hr]. apply inf_only2. exact (line2_lbinf _ _ _ Hl Hr H).
    + destruct W as (W & Hoff & Hc). ob H. pose proof (main2 s o1 W Hb) as I. clear main2 main3.
      apply inf_only2. eapply offset2_lbinf; [exact Hoff | exact H | eapply inv2_lbinf; eassumption].
    + destruct W as (Hm & W). ob H. ob H. pose proof (main2 s0 o1 W Hb) as I. clear main2 main3.
      refine (tri2 o1 o _ _ _ _ _ (fun c => c) (fun c => c) I); intros D _; eapply intersect2_cls; eassumption.
    + destruct W as (Hm & W). ob H. ob H. pose proof (main2 s0 o1 W Hb) as I. clear main2 main3.
      refine (tri2 o1 o _ _ _ _ _ (fun c => c) (fun c => c) I); intros D _; eapply difference2_cls; eassumption.
    + ob H. pose proof (main2 s o1 W Hb) as I. clear main2 main3.
      refine (tri2 o1 o _ _ _ _ _ (fun c => c) (fun c => c) I); intros D _; eapply cut2_cls; eassumption.
    + destruct W as (W & Ha & Hd). ob H. pose proof (main2 s o1 W Hb) as I. clear main2 main3.
      eapply transform2_step; eassumption.
    + destruct W as (W & Hk). ob H. pose proof (main2 s o1 W Hb) as I. clear main2 main3.
      refine (tri2 o1 o _ _ _ _ _ (fun c => c) (fun c => c) I); intros D (_ & _ & DS); eapply scaleuniform2_cls; eassumption.
    + destruct W as (-> & W). ob H. pose proof (main2 s o1 W Hb) as I. clear main2 main3.
      apply enc_only2. eapply array2_enc; [exact H | apply I].
    + destruct W as (-> & W & Ha & Hd). ob H. pose proof (main2 s o1 W Hb) as I. clear main2 main3.
      apply enc_only2. eapply rotateunion2_enc; [exact Ha | exact Hd | exact H | apply I].
    + ob H. pose proof (main2 s o1 W Hb) as I. clear main2 main3.
      apply enc_only2. eapply rotatecopy2_enc; [exact H | apply I].
    + ob H. pose proof (main2 s o1 W Hb) as I. clear main2 main3.
      refine (tri2 o1 o _ _ _ _ _ (fun c => c) (fun c => c) I); intros D (DM & DT & _); eapply elongate2_cls; eassumption.
    + destruct W as (Hmk & W). ob H.
      assert (F : Forall P2 l) by (clear -main2; induction l as [|x l IHl]; constructor; [apply main2 | exact IHl]).
      clear main2 main3. eapply union2_step; eassumption.
    + destruct W as (W & Hn). ob H. pose proof (main3 s o1 W Hb) as I. clear main2 main3.
      apply enc_only2. eapply slice2_enc; [exact Hn | exact H | apply I].
  - destruct s as [r|size round|h r round|h r0 r1 round|s theta|s h|s h tw|s h sc|s h tw sc|s h round|s0 s1 h round
                   |s m|s k|mk l|m s0 s1|m s0 s1|s a n|s h|mk s nx ny nz step|mk s num step|s n|s off|s th];
      intros o W H; cbn [wf3 build3 cinf3 cl2_3] in *.
    + clear main2 main3. split; [eapply sphere_enc, H | split; intros _; [apply lb2_lbinf3|]; eapply sphere_lb2, H].
    + clear main2 main3. split; [eapply box3_enc, H | split; intros _; [eapply box3_lbinf, H | eapply box3_lb2, H]].
    + clear main2 main3. split; [eapply cylinder_enc, H | split; intros _; [eapply cylinder_lbinf, H | eapply cylinder_lb2, H]].
    + clear main2 main3. destruct W as [H0 H1]. apply inf_only3. exact (cone_lbinf _ _ _ _ _ H0 H1 H).
    + ob H. pose proof (main2 s o1 W Hb) as I. clear main2 main3.
      split; [eapply revolve_enc; [exact H | apply I] | split; [|intros []]].
      intros [c Hth]. eapply revolve_full_lbinf; [exact Hth | exact H | eapply inv2_lbinf; eassumption].
    + destruct W as (W & Hh). ob H. pose proof (main2 s o1 W Hb) as I. clear main2 main3.
      split; [eapply extrude_enc; [exact Hh | exact H | apply I] | split; [|intros []]].
      intros c. eapply extrude_lbinf; [exact Hh | exact H | eapply inv2_lbinf; eassumption].
    + destruct W as (W & Hh). ob H. pose proof (main2 s o1 W Hb) as I. clear main2 main3.
      apply enc_only3. eapply twistextrude_enc; [exact Hh | exact H | apply I].
    + destruct W as (W & Hh & Hx & Hy). ob H. pose proof (main2 s o1 W Hb) as I. clear main2 main3.
      apply enc_only3. eapply scaleextrude_enc; [exact Hh | exact Hx | exact Hy | exact H | apply I].
    + destruct W as (W & Hh & Hx & Hy). ob H. pose proof (main2 s o1 W Hb) as I. clear main2 main3.
      apply enc_only3. eapply scaletwistextrude_enc; [exact Hh | exact Hx | exact Hy | exact H | apply I].
    + destruct W as (W & Hh & Hc). ob H. pose proof (main2 s o1 W Hb) as I. clear main2 main3.
      split; [|split; [|intros []]].
      * destruct Hc as [->|Hc]; [eapply extruderounded0_enc; [exact Hh | exact H | apply I]|].
        apply lbinf3_enc. eapply extruderounded_lbinf; [exact Hh | exact H | eapply inv2_lbinf; eassumption].
      * intros c. eapply extruderounded_lbinf; [exact Hh | exact H | eapply inv2_lbinf; eassumption].
    + destruct W as (W0 & W1 & Hc). ob H. ob H. pose proof (main2 s0 o1 W0 Hb) as I0. pose proof (main2 s1 o0 W1 Hb0) as I1.
      clear main2 main3. split; [|split; [|intros []]].
      * destruct Hc as [->|[c0 c1]]; [eapply loft0_enc; [exact H | apply I0 | apply I1]|].
        apply lbinf3_enc. eapply loft_lbinf; [exact H | eapply inv2_lbinf; eassumption | eapply inv2_lbinf; eassumption].
      * intros [c0 c1]. eapply loft_lbinf; [exact H | eapply inv2_lbinf; eassumption | eapply inv2_lbinf; eassumption].
    + destruct W as (W & Ha & Hd). ob H. pose proof (main3 s o1 W Hb) as I. clear main2 main3.
      eapply transform3_step; eassumption.
    + destruct W as (W & Hk). ob H. pose proof (main3 s o1 W Hb) as I. clear main2 main3.
      refine (tri3 o1 o _ _ _ _ _ (fun c => c) (fun c => c) I); intros D (_ & _ & DS); eapply scaleuniform3_cls; eassumption.
    + destruct W as (Hmk & W). ob H.
      assert (F : Forall P3 l) by (clear -main3; induction l as [|x l IHl]; constructor; [apply main3 | exact IHl]).
      clear main2 main3. eapply union3_step; eassumption.
    + destruct W as (Hm & W). ob H. ob H. pose proof (main3 s0 o1 W Hb) as I. clear main2 main3.
      refine (tri3 o1 o _ _ _ _ _ (fun c => c) (fun c => c) I); intros D _; eapply difference3_cls; eassumption.
    + destruct W as (Hm & W). ob H. ob H. pose proof (main3 s0 o1 W Hb) as I. clear main2 main3.
      refine (tri3 o1 o _ _ _ _ _ (fun c => c) (fun c => c) I); intros D _; eapply intersect3_cls; eassumption.
    + ob H. pose proof (main3 s o1 W Hb) as I. clear main2 main3.
      refine (tri3 o1 o _ _ _ _ _ (fun c => c) (fun c => c) I); intros D _; eapply cut3_cls; eassumption.
    + ob H. pose proof (main3 s o1 W Hb) as I. clear main2 main3.
      refine (tri3 o1 o _ _ _ _ _ (fun c => c) (fun c => c) I); intros D (DM & DT & _); eapply elongate3_cls; eassumption.
    + destruct W as (-> & W). ob H. pose proof (main3 s o1 W Hb) as I. clear main2 main3.
      apply enc_only3. eapply array3_enc; [exact H | apply I].
    + destruct W as (-> & W & Ha & Hd). ob H. pose proof (main3 s o1 W Hb) as I. clear main2 main3.
      apply enc_only3. eapply rotateunion3_enc; [exact Ha | exact Hd | exact H | apply I].
    + ob H. pose proof (main3 s o1 W Hb) as I. clear main2 main3.
      apply enc_only3. eapply rotatecopy3_enc; [exact H | apply I].
    + destruct W as (W & Hoff & Hc). ob H. pose proof (main3 s o1 W Hb) as I. clear main2 main3.
      apply inf_only3. eapply offset3_lbinf; [exact Hoff | exact H | eapply inv3_lbinf; eassumption].
    + destruct W as (W & Hc). ob H. pose proof (main3 s o1 W Hb) as I. clear main2 main3.
      apply inf_only3. eapply shell3_lbinf; [exact H | eapply inv3_lbinf; eassumption].
Qed.

Theorem all_compositions3 : forall s o, wf3 s -> @build3 ROps s = Some o -> enc3 o.
Proof. intros s o W H. apply (main3 s o W H). Qed.
Theorem all_compositions2 : forall s o, wf2 s -> @build2 ROps s = Some o -> enc2 o.
Proof. intros s o W H. apply (main2 s o W H). Qed.
Theorem all_compositions3_lbinf : forall s o, wf3 s -> cinf3 s \/ cl2_3 s -> @build3 ROps s = Some o -> lbinf_3 o.
Proof. intros s o W c H. eapply inv3_lbinf; [apply (main3 s o W H) | exact c]. Qed.
Theorem all_compositions2_lbinf : forall s o, wf2 s -> cinf2 s \/ cl2_2 s -> @build2 ROps s = Some o -> lbinf_2 o.
Proof. intros s o W c H. eapply inv2_lbinf; [apply (main2 s o W H) | exact c]. Qed.
Theorem all_compositions3_lb2 : forall s o, wf3 s -> cl2_3 s -> @build3 ROps s = Some o -> lb2_3 o.
Proof. intros s o W c H. apply (main3 s o W H), c. Qed.
Theorem all_compositions2_lb2 : forall s o, wf2 s -> cl2_2 s -> @build2 ROps s = Some o -> lb2_2 o.
Proof. intros s o W c H. apply (main2 s o W H), c. Qed.
