(* C01 over the reals, part 11: refutations (the side conditions of wf cannot be dropped) and
   examples (wf is satisfiable by non-trivial trees mixing 2D and 3D). *)
From Coq Require Import Reals Lra Lia List Bool ZArith Psatz.
From Sdfx Require Import Num.Ops Num.RInst Geo.Vec Geo.Box Geo.BoxR Geo.MinMaxR Geo.NormR Geo.Mat
  Sdf.Union2 Sdf.Shape Sdf.ShapeR Sdf.EncloseR Sdf.EncloseComb Sdf.EncloseXform Sdf.EncloseRigid Sdf.EncloseSlice Sdf.EncloseAll.
Import ListNotations.
Open Scope R_scope.

(* ------------------------------------------------------------ Offset3D over a rotated extrusion
   The rotation about the x axis with cos = 3/5, sin = 4/5 (rational entries; the known finding uses pi/4). *)
Definition rotx345 : RM := [1;0;0;0; 0;3/5;-(4/5);0; 0;4/5;3/5;0; 0;0;0;1].
Definition rot_extrusion : RS3 := Transform3 (Extrude (Box2D (mkV2 2 2) 0) 2) rotx345.

(* M^-1 p = q follows from M q = p (inverse44_correct), which is cheap to compute *)
Lemma inv_by_forward (m : RM) (p q : RV3) : affine44 m -> @m44_determinant ROps m <> 0 ->
  @m44_mulposition ROps m q = p -> @m44_mulposition ROps (@m44_inverse ROps m) p = q.
Proof. intros Ha Hd <-. apply inverse44_correct; assumption. Qed.

Lemma rotx345_rigid : rigid44 rotx345.
Proof. unfold rigid44, affine44, rotx345; cbn. repeat split; lra. Qed.
Lemma rotx345_det : @m44_determinant ROps rotx345 <> 0.
Proof. apply rigid44_det, rotx345_rigid. Qed.
Lemma rotx345_inv p : @m44_mulposition ROps (@m44_inverse ROps rotx345) p =
  mkV3 (wx p) (3/5 * wy p + 4/5 * wz p) (-(4/5) * wy p + 3/5 * wz p).
Proof.
  apply inv_by_forward; [apply rotx345_rigid | apply rotx345_det|].
  destruct p as [x y z]. unfold m44_mulposition, rotx345; cbn. f_equal; field.
Qed.

Lemma rot_extrusion_wf : wf3 rot_extrusion.
Proof.
  cbn -[m44_determinant rotx345]. repeat split; try lra; try apply rotx345_rigid. apply rotx345_det.
Qed.
(* ... but it is in neither operand class: an extrusion is only in LbInf, a rotation only keeps Lb2 *)
Lemma rot_extrusion_outside : ~ (cinf3 rot_extrusion \/ cl2_3 rot_extrusion).
Proof.
  cbn. intros [[[_ [v E]]|[[] _]]|[[] _]].
  unfold rotx345, mk_translate3d in E. injection E. intros; lra.
Qed.

Lemma offset_box_ordered b (off : R) : ordered3 b -> 0 <= off ->
  ordered3 (@newbox3 ROps (box3_center b) (v3adds (box3_size b) (two * off))).
Proof. intros (Hx & Hy & Hz) Ho. unfold ordered3; cbn. lra. Qed.

Theorem offset_outside_class_refuted :
  exists s off o p, wf3 s /\ 0 <= off /\ @build3 ROps (Offset3 s off) = Some o /\
                    ordered3 (bb3 o) /\ ev3 o p < 0 /\ ~ in_box3 (bb3 o) p.
Proof.
  exists rot_extrusion, (1 / 2). eexists. exists (mkV3 0 (- (7 / 25)) (49 / 25)).
  split; [exact rot_extrusion_wf|]. split; [lra|]. split; [reflexivity|].
  cbn [ev3 bb3]. split; [|split].
  - apply offset_box_ordered; [apply mulbox44_ordered | lra].
  - rewrite rotx345_inv. unfold extrude_ev, ex_normal. cbn [wx wy wz ev2].
    unfold sdf_box2d. cbn. rewrite (Rabs_pos_eq 0) by lra.
    replace (3 / 5 * - (7 / 25) + 4 / 5 * (49 / 25)) with (7 / 5) by field.
    replace (- (4 / 5) * - (7 / 25) + 3 / 5 * (49 / 25)) with (7 / 5) by field.
    rewrite (Rabs_pos_eq (7 / 5)) by lra.
    repeat (rcmp1; try lra; cbn [andb]). unfold Rmax; destruct (Rle_dec _ _); lra.
  - unfold in_box3; cbn. intros (_ & _ & Hz). revert Hz. unfold Rmin, Rmax; repeat destruct (Rle_dec _ _); lra.
Qed.

(* ------------------------------------------------------------ ScaleUniform3D with k < 0 turns the solid inside out *)
Theorem scaleuniform_negative_refuted :
  exists o p, @build3 ROps (ScaleUniform3 (Sphere 1) (- (1))) = Some o /\
              ordered3 (bb3 o) /\ ev3 o p < 0 /\ ~ in_box3 (bb3 o) p.
Proof.
  assert (E : Rleb 1 0 = false) by (apply Rleb_false; lra).
  eexists. exists (mkV3 5 0 0). split; [cbn; unfold k_sphere; cbn; rewrite E; reflexivity|]. cbn [ev3 bb3]. split; [|split].
  - unfold ordered3; cbn. unfold Rmin, Rmax; repeat destruct (Rle_dec _ _); lra.
  - cbn. replace (5 * (1 / - (1)) * (5 * (1 / - (1))) + 0 * (1 / - (1)) * (0 * (1 / - (1))) + 0 * (1 / - (1)) * (0 * (1 / - (1))))
      with (5 * 5) by field. rewrite sqrt_square by lra. lra.
  - unfold in_box3; cbn. intros (Hx & _). revert Hx. unfold Rmin, Rmax; repeat destruct (Rle_dec _ _); lra.
Qed.

(* ------------------------------------------------------------ a negative offset needs more than enclosure of the operand *)
Theorem offset_negative_refuted :
  exists s o p, wf3 s /\ @build3 ROps (Offset3 s (- (1 / 4))) = Some o /\
                ordered3 (bb3 o) /\ ev3 o p < 0 /\ ~ in_box3 (bb3 o) p.
Proof.
  assert (E : Rleb 1 0 = false) by (apply Rleb_false; lra).
  exists (Transform3 (Sphere 1) (@mk_scale3d ROps (mkV3 (1 / 2) 1 1))). eexists. exists (mkV3 (3 / 10) 0 0).
  split; [|split; [cbn; unfold k_sphere; cbn; rewrite E; reflexivity|]].
  - cbn. repeat split; try lra; unfold m44_determinant; cbn; lra.
  - cbn [ev3 bb3]. split; [|split].
    + unfold ordered3; cbn. unfold Rmin, Rmax; repeat destruct (Rle_dec _ _); lra.
    + assert (Ei : @m44_mulposition ROps (@m44_inverse ROps (@mk_scale3d ROps (mkV3 (1 / 2) 1 1))) (mkV3 (3 / 10) 0 0) = mkV3 (3 / 5) 0 0).
      { apply inv_by_forward; [unfold affine44; cbn; auto | unfold m44_determinant; cbn; lra|].
        unfold m44_mulposition, mk_scale3d; cbn. f_equal; field. }
      rewrite Ei. cbn. replace (3 / 5 * (3 / 5) + 0 * 0 + 0 * 0) with (3 / 5 * (3 / 5)) by ring.
      rewrite sqrt_square by lra. lra.
    + unfold in_box3; cbn. intros (Hx & _). revert Hx. unfold Rmin, Rmax; repeat destruct (Rle_dec _ _); lra.
Qed.

(* ------------------------------------------------------------ examples: wf holds for non-trivial trees *)
Definition rot2_345 : RM := [3/5; -(4/5); 5; 4/5; 3/5; 0; 0; 0; 1].   (* rotate, then move to x = 5 *)

(* depth 5: Offset3 (Union3 [Transform3 (Extrude (Difference2 (Box2D, Circle))), Sphere]) *)
Definition ex_plate : RS3 :=
  Offset3 (Union3 MinDef
             [ Transform3 (Extrude (Difference2 MaxDef (Box2D (mkV2 4 2) (1 / 2)) (Circle (1 / 2))) 2)
                          (@mk_translate3d ROps (mkV3 1 2 3));
               Sphere 1 ]) (1 / 4).
Lemma translate3_ok (v : RV3) : affine44 (@mk_translate3d ROps v) /\ @m44_determinant ROps (@mk_translate3d ROps v) <> 0 /\
  is_translate3 (@mk_translate3d ROps v).
Proof.
  split; [unfold affine44; cbn; auto|]. split; [unfold m44_determinant, mk_translate3d; cbn; lra | now exists v].
Qed.
Example ex_plate_wf : wf3 ex_plate.
Proof.
  pose proof (translate3_ok (mkV3 1 2 3)) as (A & D & T).
  cbn -[m44_determinant mk_translate3d]. repeat split; try lra; try assumption.
  left. split; [left; split; [now left | exact T] | split; exact I].
Qed.
Example ex_plate_enclosed : forall o, @build3 ROps ex_plate = Some o -> enc3 o.
Proof. intros o. apply all_compositions3, ex_plate_wf. Qed.

(* depth 4: Revolve (Transform2 (Union2 [Circle, Box2D]) rotation+translation) through 4 radians *)
Definition ex_ring : RS3 :=
  Revolve (Transform2 (Union2 MinDef [Circle 1; Box2D (mkV2 1 1) 0]) rot2_345) 4.
Example ex_ring_wf : wf3 ex_ring.
Proof.
  cbn. repeat split; try lra; unfold m33_determinant, rot2_345; cbn; lra.
Qed.
Example ex_ring_enclosed : forall o, @build3 ROps ex_ring = Some o -> enc3 o.
Proof. intros o. apply all_compositions3, ex_ring_wf. Qed.

(* depth 4, 3D -> 2D -> 3D: TwistExtrude (Slice2 (Intersect3 PolyMax (Cone, RotateCopy3 Cylinder))) *)
Definition ex_twisted_slice : RS3 :=
  TwistExtrude
    (Slice2 (Intersect3 (MaxPoly (1 / 10)) (Cone 2 1 (1 / 2) (1 / 10)) (RotateCopy3 (Cylinder 1 2 0) 5))
            (mkV3 0 0 (1 / 4)) (mkV3 1 2 3))
    3 1.
Example ex_twisted_slice_wf : wf3 ex_twisted_slice.
Proof. cbn. unfold dot3; cbn. repeat split; lra. Qed.
Example ex_twisted_slice_enclosed : forall o, @build3 ROps ex_twisted_slice = Some o -> enc3 o.
Proof. intros o. apply all_compositions3, ex_twisted_slice_wf. Qed.

(* in contrast to the refuted rotated extrusion: a rotated rounded box or cylinder is in Lb2, so its offset
   and shell are covered *)
Definition ex_rotated_box : RS3 :=
  Shell3 (Offset3 (Union3 MinDef [Transform3 (Box3D (mkV3 2 3 4) (1 / 4)) rotx345;
                                  Transform3 (Cylinder 5 1 (1 / 2)) rotx345]) (1 / 2)) (1 / 10).
Example ex_rotated_box_wf : wf3 ex_rotated_box.
Proof.
  pose proof rotx345_rigid as R. pose proof rotx345_det as D. pose proof (proj1 R) as A.
  assert (C : (True /\ rigid44 rotx345) /\ (True /\ rigid44 rotx345) /\ True) by (split; [split; [exact I | exact R] | split; [split; [exact I | exact R] | exact I]]).
  cbn -[m44_determinant rotx345 rigid44].
  split; [split; [repeat split; assumption | split; [lra | right; exact C]] | left; split; [right; exact C | lra]].
Qed.
Example ex_rotated_box_enclosed : forall o, @build3 ROps ex_rotated_box = Some o -> enc3 o.
Proof. intros o. apply all_compositions3, ex_rotated_box_wf. Qed.

(* a torus (full revolution of a translated circle) cut by a rounded cone, offset: Revolve with theta = 0
   and Cone3D are in LbInf *)
Lemma fmod_zero : Rfmod (Rabs 0) (@tau ROps) = 0.
Proof.
  rewrite Rabs_R0. unfold Rfmod, Rtrunc. replace (0 / @tau ROps) with 0 by (unfold Rdiv; ring).
  destruct (Rle_dec 0 0) as [_|N]; [|lra]. destruct (base_Int_part 0) as [A B].
  assert (E : Int_part 0 = 0%Z). { apply le_IZR in A. assert (C : IZR (-1) < IZR (Int_part 0)) by lra. apply lt_IZR in C. lia. }
  rewrite E. ring.
Qed.
Definition ex_torus : RS3 :=
  Offset3 (Intersect3 MaxDef (Revolve (Transform2 (Circle 1) (@mk_translate2d ROps (mkV2 3 0))) 0)
                             (Cone 2 4 3 (1 / 4))) (1 / 4).
Example ex_torus_wf : wf3 ex_torus.
Proof.
  assert (T : affine33 (@mk_translate2d ROps (mkV2 3 0)) /\ @m33_determinant ROps (@mk_translate2d ROps (mkV2 3 0)) <> 0 /\
              is_translate2 (@mk_translate2d ROps (mkV2 3 0))).
  { split; [unfold affine33; cbn; auto|]. split; [unfold m33_determinant, mk_translate2d; cbn; lra | now exists (mkV2 3 0)]. }
  destruct T as (A & D & T). pose proof fmod_zero as Z.
  cbn -[m33_determinant mk_translate2d Rfmod tau].
  split; [split; [exact I | split; [exact I | split; assumption]] | split; [lra | left; split; [left; left; split; [exact I | exact T] | exact Z]]].
Qed.
Example ex_torus_enclosed : forall o, @build3 ROps ex_torus = Some o -> enc3 o.
Proof. intros o. apply all_compositions3, ex_torus_wf. Qed.

(* the hypothesis build = Some is satisfiable: the plate really builds *)
Example ex_plate_builds : exists o, @build3 ROps ex_plate = Some o.
Proof.
  assert (E1 : Rltb (1 / 2) 0 = false) by (apply Rltb_false; lra).
  assert (E2 : Rleb 1 0 = false) by (apply Rleb_false; lra).
  eexists. cbn. unfold k_circle, k_sphere. cbn. rewrite E1, E2. cbn. reflexivity.
Qed.
