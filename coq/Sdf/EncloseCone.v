(* C01 over the reals, part 8: Cone3D - truncated cone, both orientations, with rounding.
   In (rho, z) coordinates the inner trapezoid has the slope line through A = (sr0, -sh) and
   B = (sr1, sh) with unit direction u = (ux, uy), uy > 0, outward normal n = (uy, -ux), and
   B = A + l u.  Every branch of Evaluate is bounded by max(sr0, sr1) + round radially and by
   sh + round = height/2 axially. *)
From Coq Require Import Reals Lra Lia List Bool ZArith Psatz.
From Sdfx Require Import Num.Ops Num.RInst Geo.Vec Geo.Box Geo.BoxR Geo.MinMaxR Geo.NormR Geo.Mat
  Sdf.Union2 Sdf.Shape Sdf.ShapeR Sdf.EncloseR.
Import ListNotations.
Open Scope R_scope.

(* the body of ConeSDF3.Evaluate on p2 = (rho, z), parameters abstracted (same text as Shape.v) *)
Definition cone_field (sr0 sr1 sh round : R) (u n : RV2) (l : R) (p2 : RV2) : R :=
  if (Rleb sh (vy p2)) && (Rleb (vx p2) sr1) then vy p2 - sh - round
  else if (Rleb (vy p2) (- sh)) && (Rleb (vx p2) sr0) then - vy p2 - sh - round
  else
    let v := @v2sub ROps p2 (mkV2 sr0 (- sh)) in
    let dslope := @v2dot ROps v n in
    if (Rltb dslope 0) && (Rltb (Rabs (vy p2)) sh)
    then - (Rmin (- dslope) (sh - Rabs (vy p2))) - round
    else
      let t := @v2dot ROps v u in
      if (Rleb 0 t) && (Rleb t l) then dslope - round
      else if Rltb t 0 then @v2len ROps v - round
      else @v2len ROps (@v2sub ROps p2 (mkV2 sr1 sh)) - round.

Section ConeCore.
  Variables sr0 sr1 sh round ux uy l : R.
  Hypothesis U1 : ux * ux + uy * uy = 1.
  Hypothesis Uy : 0 < uy.
  Hypothesis Hr : 0 <= round.
  Hypothesis Hsh : 0 <= sh.
  Hypothesis Hl : 0 <= l.
  Hypothesis E1 : sr1 - sr0 = l * ux.
  Hypothesis E2 : 2 * sh = l * uy.

  Lemma uy_le1 : uy <= 1.
  Proof. nra. Qed.
  Lemma ux_abs1 : -1 <= ux <= 1.
  Proof. split; nra. Qed.

  (* inside the slope half plane and between the caps *)
  Lemma cone_inside rho z : (rho - sr0) * uy + (z - - sh) * - ux < 0 -> Rabs z < sh ->
    rho <= Rmax sr0 sr1.
  Proof.
    intros Hd Hz. apply Rabs_lt_inv in Hz.
    pose proof (Rmax_l sr0 sr1). pose proof (Rmax_r sr0 sr1).
    assert (L0 : 0 < l) by (destruct (Req_dec l 0) as [E|E]; [rewrite E in E2; lra | lra]).
    assert (P : (rho - sr0) * (2 * sh) < (z + sh) * (sr1 - sr0)).
    { rewrite E1, E2. assert (Q : 0 < (z + sh) * ux - (rho - sr0) * uy) by lra.
      pose proof (Rmult_lt_0_compat _ _ L0 Q). lra. }
    destruct (Rle_dec sr0 sr1).
    - assert ((z + sh) * (sr1 - sr0) <= 2 * sh * (sr1 - sr0)) by (apply Rmult_le_compat_r; lra).
      assert (rho - sr0 < sr1 - sr0); [|lra]. apply Rmult_lt_reg_r with (2 * sh); lra.
    - assert ((z + sh) * (sr1 - sr0) <= 0) by nra.
      assert (rho - sr0 < 0); [|lra]. apply Rmult_lt_reg_r with (2 * sh); lra.
  Qed.

  (* closest to the slope segment *)
  Lemma cone_slope rho z :
    let d := (rho - sr0) * uy + (z - - sh) * - ux in
    let t := (rho - sr0) * ux + (z - - sh) * uy in
    0 <= t <= l -> d < round ->
    ~ (d < 0 /\ Rabs z < sh) -> ~ (sh <= z /\ rho <= sr1) -> ~ (z <= - sh /\ rho <= sr0) ->
    rho <= Rmax sr0 sr1 + round /\ - (sh + round) <= z <= sh + round.
  Proof.
    intros d t Ht Hd N3 N1 N2. pose proof uy_le1. pose proof ux_abs1.
    pose proof (Rmax_l sr0 sr1). pose proof (Rmax_r sr0 sr1).
    assert (Er : rho - sr0 = t * ux + d * uy)
      by (unfold t, d; transitivity ((rho - sr0) * (ux * ux + uy * uy)); [rewrite U1; ring | ring]).
    assert (Ez : z + sh = t * uy - d * ux)
      by (unfold t, d; transitivity ((z + sh) * (ux * ux + uy * uy)); [rewrite U1; ring | ring]).
    clearbody d t.
    assert (Tu : t * ux <= Rmax sr0 sr1 - sr0).
    { destruct (Rle_dec 0 ux); [assert (t * ux <= l * ux) by (apply Rmult_le_compat_r; lra); lra|].
      assert (t * ux <= 0) by nra. lra. }
    assert (Du : d * uy <= round).
    { destruct (Rle_dec 0 d); [assert (d * uy <= d * 1) by (apply Rmult_le_compat_l; lra); lra|].
      assert (d * uy <= 0) by nra. lra. }
    split; [lra|].
    assert (T0 : 0 <= t * uy) by (apply Rmult_le_pos; lra).
    assert (T1 : t * uy <= l * uy) by (apply Rmult_le_compat_r; lra).
    destruct (Rle_dec 0 d) as [D0|D0].
    - (* outside the slope line: |d ux| <= d < round *)
      assert (- d <= d * ux <= d) by (split; nra). lra.
    - assert (Dn : d < 0) by lra. assert (Duy : d * uy < 0) by nra.
      assert (Hz : sh <= Rabs z) by (destruct (Rlt_dec (Rabs z) sh); [exfalso; apply N3; split; assumption | lra]).
      destruct (Rle_dec 0 z) as [Z0|Z0].
      + rewrite Rabs_pos_eq in Hz by exact Z0. split; [lra|].
        destruct (Rle_dec ux 0) as [X0|X0]; [assert (0 <= d * ux) by nra; lra|].
        exfalso; apply N1; split; [exact Hz|].
        assert ((t - l) * ux <= 0) by nra. lra.
      + rewrite Rabs_left in Hz by lra. split; [|lra].
        destruct (Rle_dec 0 ux) as [X0|X0]; [assert (d * ux <= 0) by nra; lra|].
        exfalso; apply N2; split; [lra|].
        assert (t * ux <= 0) by nra. lra.
  Qed.
End ConeCore.


Lemma sqrt_lt_both (a b r : R) : sqrt (a * a + b * b) - r < 0 -> Rabs a < r /\ Rabs b < r.
Proof.
  intros H. pose proof (abs_le_len2_x (mkV2 a b)) as X. pose proof (abs_le_len2_y (mkV2 a b)) as Y.
  unfold len2 in X, Y; cbn [vx vy] in X, Y. lra.
Qed.

Section ConeMain.
  Variables sr0 sr1 sh round ux uy l : R.
  Hypothesis U1 : ux * ux + uy * uy = 1.
  Hypothesis Uy : 0 < uy.
  Hypothesis Hr : 0 <= round.
  Hypothesis Hsh : 0 <= sh.
  Hypothesis Hl : 0 <= l.
  Hypothesis E1 : sr1 - sr0 = l * ux.
  Hypothesis E2 : 2 * sh = l * uy.

  Lemma cone_core rho z :
    cone_field sr0 sr1 sh round (mkV2 ux uy) (mkV2 uy (- ux)) l (mkV2 rho z) < 0 ->
    rho <= Rmax sr0 sr1 + round /\ - (sh + round) <= z <= sh + round.
  Proof.
    pose proof (Rmax_l sr0 sr1). pose proof (Rmax_r sr0 sr1).
    unfold cone_field. cbn [vx vy].
    destruct (Rleb sh z && Rleb rho sr1) eqn:B1.
    { apply andb_true_iff in B1. destruct B1. bfalse. intros. split; lra. }
    destruct (Rleb z (- sh) && Rleb rho sr0) eqn:B2.
    { apply andb_true_iff in B2. destruct B2. bfalse. intros. split; lra. }
    cbv zeta. unfold v2dot, v2sub, v2len, v2len2, v2dot. cbn [vx vy]. ropen.
    set (d := (rho - sr0) * uy + (z - - sh) * - ux). set (t := (rho - sr0) * ux + (z - - sh) * uy).
    assert (N1 : ~ (sh <= z /\ rho <= sr1)).
    { intros [A B]. apply Rleb_true in A. apply Rleb_true in B. rewrite A, B in B1. discriminate. }
    assert (N2 : ~ (z <= - sh /\ rho <= sr0)).
    { intros [A B]. apply Rleb_true in A. apply Rleb_true in B. rewrite A, B in B2. discriminate. }
    destruct (Rltb d 0 && Rltb (Rabs z) sh) eqn:B3.
    { apply andb_true_iff in B3. destruct B3 as [A B]. bfalse. intros _.
      pose proof (cone_inside sr0 sr1 sh ux uy l Hl E1 E2 rho z A B). apply Rabs_lt_inv in B. split; lra. }
    assert (N3 : ~ (d < 0 /\ Rabs z < sh)).
    { intros [A B]. apply Rltb_true in A. apply Rltb_true in B. rewrite A, B in B3. discriminate. }
    destruct (Rleb 0 t && Rleb t l) eqn:B4.
    { apply andb_true_iff in B4. destruct B4 as [A B]. bfalse. intros Hd.
      apply (cone_slope sr0 sr1 sh round ux uy l U1 Uy Hr Hsh E1 E2 rho z (conj A B)); [change (d < round); lra | exact N3 | exact N1 | exact N2]. }
    destruct (Rltb t 0) eqn:B5; intros Hd; apply sqrt_lt_both in Hd; destruct Hd as [A B];
      apply Rabs_lt_inv in A; apply Rabs_lt_inv in B; split; lra.
  Qed.
End ConeMain.

(* ------------------------------------------------------------ the parameters Cone3D computes *)
Section ConeLink.
  Variables h r0 r1 round : R.
  Definition cone_sh : R := h / @two ROps - round.
  Definition cone_u : RV2 := @v2normalize ROps (@v2sub ROps (mkV2 r1 (h / @two ROps)) (mkV2 r0 (- (h / @two ROps)))).
  Definition cone_n : RV2 := mkV2 (vy cone_u) (- vx cone_u).
  Definition cone_ofs : R := round / vx cone_n.
  Definition cone_sr0 : R := r0 - (1 + vy cone_n) * cone_ofs.
  Definition cone_sr1 : R := r1 - (1 - vy cone_n) * cone_ofs.
  Definition cone_l : R := @v2len ROps (@v2sub ROps (mkV2 cone_sr1 cone_sh) (mkV2 cone_sr0 (- cone_sh))).
  Definition cone_r : R := Rmax (cone_sr0 + round) (cone_sr1 + round).
  Definition cone_obj : RObj3 :=
    mkObj3 (fun p => cone_field cone_sr0 cone_sr1 cone_sh round cone_u cone_n cone_l
                       (mkV2 (@v2len ROps (mkV2 (wx p) (wy p))) (wz p)))
           (mkBox3 (mkV3 (- cone_r) (- cone_r) (- (h / @two ROps))) (mkV3 cone_r cone_r (h / @two ROps))).

  Lemma cone_obj_eq o : @k_cone ROps h r0 r1 round = Some o ->
    o = cone_obj /\ 0 < h /\ 0 <= round /\ 2 * round <= h.
  Proof.
    intros H. unfold k_cone in H. kchecks H. apply some_inj in H.
    split; [rewrite <- H; reflexivity|]. cbn in K, K0, K1. bfalse. lra.
  Qed.

  Hypothesis Hh : 0 < h.
  Hypothesis Hr : 0 <= round.
  Hypothesis Hhr : 2 * round <= h.

  Let L := sqrt ((r1 - r0) * (r1 - r0) + h * h).
  Lemma cone_L_pos : 0 < L.
  Proof. unfold L. apply sqrt_lt_R0. assert (0 < h * h) by (apply Rmult_lt_0_compat; lra). pose proof (Rle_0_sqr (r1 - r0)) as S. unfold Rsqr in S. lra. Qed.
  Lemma cone_u_eq : cone_u = mkV2 ((r1 - r0) / L) (h / L).
  Proof.
    unfold cone_u, v2normalize, v2muls, v2len, v2len2, v2dot, v2sub; cbn. rewrite two_eq || idtac.
    assert (E : r1 - r0 = r1 - r0) by reflexivity.
    replace (h / (1 + 1) - - (h / (1 + 1))) with h by field.
    fold L. pose proof cone_L_pos. f_equal; field; lra.
  Qed.
  Lemma cone_facts :
    let ux := vx cone_u in let uy := vy cone_u in
    ux * ux + uy * uy = 1 /\ 0 < uy /\ 0 <= cone_sh /\ 0 <= cone_l /\
    cone_sr1 - cone_sr0 = cone_l * ux /\ 2 * cone_sh = cone_l * uy.
  Proof.
    pose proof cone_L_pos as HL. cbv zeta.
    assert (SL : L * L = (r1 - r0) * (r1 - r0) + h * h) by (unfold L; apply sqrt_sqrt; pose proof (Rle_0_sqr (r1 - r0)) as S; pose proof (Rle_0_sqr h) as S'; unfold Rsqr in S, S'; lra).
    assert (Hsh : 0 <= cone_sh) by (unfold cone_sh; rewrite two_eq; lra).
    unfold cone_l, cone_sr1, cone_sr0, cone_ofs, cone_n. cbn [vx vy]. rewrite cone_u_eq. cbn [vx vy].
    set (ux := (r1 - r0) / L). set (uy := h / L).
    assert (Uy : 0 < uy) by (apply Rdiv_lt_0_compat; lra).
    assert (U1 : ux * ux + uy * uy = 1).
    { unfold ux, uy. replace ((r1 - r0) / L * ((r1 - r0) / L) + h / L * (h / L))
        with (((r1 - r0) * (r1 - r0) + h * h) / (L * L)) by (field; lra). rewrite <- SL. field. lra. }
    set (lam := 2 * cone_sh / uy).
    assert (Lam : 0 <= lam) by (unfold lam; apply Rmult_le_pos; [lra | left; apply Rinv_0_lt_compat; lra]).
    assert (Ex : r1 - (1 - - ux) * (round / uy) - (r0 - (1 + - ux) * (round / uy)) = lam * ux).
    { unfold lam, cone_sh. rewrite two_eq. assert (Er : r1 - r0 = ux * L) by (unfold ux; field; lra).
      assert (Eh : h = uy * L) by (unfold uy; field; lra).
      replace (r1 - (1 - - ux) * (round / uy) - (r0 - (1 + - ux) * (round / uy))) with ((r1 - r0) - 2 * ux * round / uy) by (field; lra).
      rewrite Er. rewrite Eh at 1. field. lra. }
    assert (Ey : 2 * cone_sh = lam * uy) by (unfold lam; field; lra).
    assert (El : @v2len ROps (@v2sub ROps (mkV2 (r1 - (1 - - ux) * (round / uy)) cone_sh) (mkV2 (r0 - (1 + - ux) * (round / uy)) (- cone_sh))) = lam).
    { unfold v2len, v2len2, v2dot, v2sub; cbn [vx vy]. ropen. rewrite Ex.
      replace (cone_sh - - cone_sh) with (lam * uy) by lra.
      replace (lam * ux * (lam * ux) + lam * uy * (lam * uy)) with (lam * lam * (ux * ux + uy * uy)) by ring.
      rewrite U1, Rmult_1_r. apply sqrt_square, Lam. }
    rewrite El. repeat split; try assumption.
  Qed.
End ConeLink.

(* Cone3D does not validate the radii.  The box radius is max(sr0, sr1) + round; it is non-negative
   (the box ordered) as soon as r0, r1 >= 0: of the two inset coefficients one is <= 1. *)
Lemma cone_r_nonneg h r0 r1 round : 0 < h -> 0 <= round -> 2 * round <= h -> 0 <= r0 -> 0 <= r1 ->
  0 <= cone_r h r0 r1 round.
Proof.
  intros Hh Hr Hhr H0 H1. destruct (cone_facts h r0 r1 round Hh Hhr) as (U1 & Uy & _). cbv zeta in U1, Uy.
  unfold cone_r, cone_sr0, cone_sr1, cone_ofs, cone_n; cbn [vx vy].
  set (ux := vx (cone_u h r0 r1)) in *. set (uy := vy (cone_u h r0 r1)) in *.
  assert (Hi : 0 < / uy) by (apply Rinv_0_lt_compat; lra). assert (E : uy * / uy = 1) by (field; lra).
  assert (Uy1 : uy <= 1) by nra.
  destruct (Rle_dec 0 ux) as [X|X].
  - (* (1 - ux) / uy <= 1 ... or the other one *)
    eapply Rle_trans; [|apply Rmax_l]. unfold Rdiv.
    assert (A : (1 + - ux) * / uy <= 1).
    { replace 1 with (uy * / uy) at 2 by exact E. replace (1 + - ux) with (1 - ux) by ring.
      apply Rmult_le_compat_r; [lra|].
      assert (P : (1 - ux) * (1 + ux) = uy * uy) by (replace (uy * uy) with (1 - ux * ux) by lra; ring).
      destruct (Rle_dec (1 - ux) uy); [assumption | exfalso].
      assert (uy * (1 + ux) < (1 - ux) * (1 + ux)) by (apply Rmult_lt_compat_r; lra).
      assert (uy * (1 + ux) < uy * uy) by lra.
      assert (1 + ux < uy) by (apply Rmult_lt_reg_l with uy; lra). lra. }
    assert (round * ((1 + - ux) * / uy) <= round * 1) by (apply Rmult_le_compat_l; lra). lra.
  - eapply Rle_trans; [|apply Rmax_r]. unfold Rdiv.
    assert (A : (1 - - ux) * / uy <= 1).
    { replace 1 with (uy * / uy) at 2 by exact E. replace (1 - - ux) with (1 + ux) by ring. apply Rmult_le_compat_r; [lra|].
      assert (P : (1 - ux) * (1 + ux) = uy * uy) by (replace (uy * uy) with (1 - ux * ux) by lra; ring).
      destruct (Rle_dec (1 + ux) uy); [assumption | exfalso].
      assert (uy * (1 - ux) < (1 + ux) * (1 - ux)) by (apply Rmult_lt_compat_r; lra).
      assert (uy * (1 - ux) < uy * uy) by lra.
      assert (1 - ux < uy) by (apply Rmult_lt_reg_l with uy; lra). lra. }
    assert (round * ((1 - - ux) * / uy) <= round * 1) by (apply Rmult_le_compat_l; lra). lra.
Qed.

Theorem cone_enc_r h r0 r1 round o : @k_cone ROps h r0 r1 round = Some o -> 0 <= cone_r h r0 r1 round -> enc3 o.
Proof.
  intros H Hcr. destruct (cone_obj_eq _ _ _ _ _ H) as (-> & Hh & Hr & Hhr).
  destruct (cone_facts h r0 r1 round Hh Hhr) as (U1 & Uy & Hsh & Hl & E1 & E2). cbv zeta in *.
  split; cbn [bb3 ev3 cone_obj].
  - unfold ordered3; cbn [b3min b3max wx wy wz]. rewrite two_eq. lra.
  - intros p Hp.
    pose proof (cone_core _ _ _ _ _ _ _ U1 Uy Hr Hsh Hl E1 E2 (@v2len ROps (mkV2 (wx p) (wy p))) (wz p)) as C.
    destruct C as [Cr Cz]; [exact Hp|].
    assert (Er : Rmax (cone_sr0 h r0 r1 round) (cone_sr1 h r0 r1 round) + round = cone_r h r0 r1 round).
    { unfold cone_r. unfold Rmax; repeat destruct (Rle_dec _ _); lra. }
    rewrite Er in Cr. unfold cone_sh in Cz. rewrite two_eq in Cz.
    pose proof (abs_le_len2_x (mkV2 (wx p) (wy p))) as X. pose proof (abs_le_len2_y (mkV2 (wx p) (wy p))) as Y.
    cbn [vx vy] in X, Y. change (@v2len ROps (mkV2 (wx p) (wy p))) with (len2 (mkV2 (wx p) (wy p))) in Cr.
    assert (Ax : Rabs (wx p) <= cone_r h r0 r1 round) by lra. assert (Ay : Rabs (wy p) <= cone_r h r0 r1 round) by lra.
    apply Rabs_le_inv in Ax, Ay. unfold in_box3; cbn [b3min b3max wx wy wz]. rewrite two_eq. lra.
Qed.
Theorem cone_enc h r0 r1 round o : 0 <= r0 -> 0 <= r1 -> @k_cone ROps h r0 r1 round = Some o -> enc3 o.
Proof.
  intros H0 H1 H. destruct (cone_obj_eq _ _ _ _ _ H) as (_ & Hh & Hr & Hhr).
  apply (cone_enc_r _ _ _ _ _ H). apply cone_r_nonneg; assumption.
Qed.

(* ------------------------------------------------------------ the cone is in the class lbinf:
   at every point the value dominates rho - (max inset radius + round) and |z| - height/2 *)
Section ConeSlab.
  Variables sr0 sr1 sh round ux uy l : R.
  Hypothesis U1 : ux * ux + uy * uy = 1.
  Hypothesis Uy : 0 < uy.
  Hypothesis Hr : 0 <= round.
  Hypothesis Hsh : 0 <= sh.
  Hypothesis Hl : 0 <= l.
  Hypothesis E1 : sr1 - sr0 = l * ux.
  Hypothesis E2 : 2 * sh = l * uy.

  Lemma cone_inside_slab rho z : (rho - sr0) * uy + (z - - sh) * - ux < 0 -> Rabs z < sh ->
    rho - Rmax sr0 sr1 <= (rho - sr0) * uy + (z - - sh) * - ux.
  Proof.
    intros Hd Hz. pose proof (cone_inside sr0 sr1 sh ux uy l Hl E1 E2 rho z Hd Hz) as HM.
    apply Rabs_lt_inv in Hz. assert (Uy1 : uy <= 1) by nra.
    set (w := z + sh). assert (Hw : 0 < w < l * uy) by (unfold w; lra).
    destruct (Rle_dec 0 ux) as [X|X].
    - assert (EM : Rmax sr0 sr1 = sr1) by (apply Rmax_right; nra). rewrite EM in *.
      assert (0 <= (1 - uy) * (sr1 - rho)) by (apply Rmult_le_pos; lra).
      assert (w * ux <= l * uy * ux) by (apply Rmult_le_compat_r; lra).
      assert (0 <= l * ux) by (apply Rmult_le_pos; lra).
      assert (0 <= l * ux * (1 - uy)) by (apply Rmult_le_pos; lra).
      assert (l * uy * ux <= l * ux) by lra.
      replace (z - - sh) with w by (unfold w; ring). nra.
    - assert (EM : Rmax sr0 sr1 = sr0) by (apply Rmax_left; nra). rewrite EM in *.
      assert (0 <= (1 - uy) * (sr0 - rho)) by (apply Rmult_le_pos; lra).
      assert (0 <= w * - ux) by (apply Rmult_le_pos; lra).
      replace (z - - sh) with w by (unfold w; ring). nra.
  Qed.

  Lemma cone_slope_slab rho z :
    let d := (rho - sr0) * uy + (z - - sh) * - ux in
    let t := (rho - sr0) * ux + (z - - sh) * uy in
    0 <= t <= l -> ~ (d < 0 /\ Rabs z < sh) -> ~ (sh <= z /\ rho <= sr1) -> ~ (z <= - sh /\ rho <= sr0) ->
    rho - Rmax sr0 sr1 <= d /\ Rabs z - sh <= d.
  Proof.
    intros d t Ht N3 N1 N2. assert (Uy1 : uy <= 1) by nra. assert (Ux1 : -1 <= ux <= 1) by (split; nra).
    pose proof (Rmax_l sr0 sr1). pose proof (Rmax_r sr0 sr1).
    assert (Er : rho - sr0 = t * ux + d * uy)
      by (unfold t, d; transitivity ((rho - sr0) * (ux * ux + uy * uy)); [rewrite U1; ring | ring]).
    assert (Ez : z + sh = t * uy - d * ux)
      by (unfold t, d; transitivity ((z + sh) * (ux * ux + uy * uy)); [rewrite U1; ring | ring]).
    clearbody d t.
    assert (T0 : 0 <= t * uy) by (apply Rmult_le_pos; lra).
    assert (T1 : t * uy <= l * uy) by (apply Rmult_le_compat_r; lra).
    assert (D0 : 0 <= d).
    { destruct (Rle_dec 0 d) as [|Dn]; [assumption | exfalso]. assert (d < 0) by lra. assert (d * uy < 0) by nra.
      assert (Hz : sh <= Rabs z) by (destruct (Rlt_dec (Rabs z) sh); [exfalso; apply N3; split; assumption | lra]).
      destruct (Rle_dec 0 z) as [Z0|Z0].
      - rewrite Rabs_pos_eq in Hz by exact Z0. destruct (Rle_dec 0 ux).
        + apply N1. split; [exact Hz|]. assert ((t - l) * ux <= 0) by nra. lra.
        + assert (0 < d * ux) by nra. lra.
      - rewrite Rabs_left in Hz by lra. destruct (Rle_dec ux 0).
        + apply N2. split; [lra|]. assert (t * ux <= 0) by nra. lra.
        + assert (d * ux < 0) by nra. lra. }
    assert (Tu : t * ux <= Rmax sr0 sr1 - sr0).
    { destruct (Rle_dec 0 ux); [assert (t * ux <= l * ux) by (apply Rmult_le_compat_r; lra); lra|].
      assert (t * ux <= 0) by nra. lra. }
    assert (Du : d * uy <= d) by nra. assert (Dx : - d <= d * ux <= d) by (split; nra).
    split; [lra|]. unfold Rabs. destruct (Rcase_abs z); lra.
  Qed.

  Lemma cone_slab rho z :
    let F := cone_field sr0 sr1 sh round (mkV2 ux uy) (mkV2 uy (- ux)) l (mkV2 rho z) in
    rho - (Rmax sr0 sr1 + round) <= F /\ Rabs z - (sh + round) <= F.
  Proof.
    pose proof (Rmax_l sr0 sr1). pose proof (Rmax_r sr0 sr1).
    pose proof (Rabs_ge_l z) as Zl. pose proof (Rabs_ge_r z) as Zr.
    cbv zeta. unfold cone_field. cbn [vx vy].
    destruct (Rleb sh z && Rleb rho sr1) eqn:B1.
    { apply andb_true_iff in B1. destruct B1. bfalse. rewrite (Rabs_pos_eq z) by lra. split; lra. }
    destruct (Rleb z (- sh) && Rleb rho sr0) eqn:B2.
    { apply andb_true_iff in B2. destruct B2. bfalse. rewrite (Rabs_left1 z) by lra. split; lra. }
    cbv zeta. unfold v2dot, v2sub, v2len, v2len2, v2dot. cbn [vx vy]. ropen.
    set (d := (rho - sr0) * uy + (z - - sh) * - ux). set (t := (rho - sr0) * ux + (z - - sh) * uy).
    assert (N1 : ~ (sh <= z /\ rho <= sr1)).
    { intros [A B]. apply Rleb_true in A. apply Rleb_true in B. rewrite A, B in B1. discriminate. }
    assert (N2 : ~ (z <= - sh /\ rho <= sr0)).
    { intros [A B]. apply Rleb_true in A. apply Rleb_true in B. rewrite A, B in B2. discriminate. }
    destruct (Rltb d 0 && Rltb (Rabs z) sh) eqn:B3.
    { apply andb_true_iff in B3. destruct B3 as [A B]. bfalse.
      pose proof (cone_inside_slab rho z A B) as S. fold d in S.
      pose proof (Rmin_l (- d) (sh - Rabs z)). pose proof (Rmin_r (- d) (sh - Rabs z)). split; lra. }
    assert (N3 : ~ (d < 0 /\ Rabs z < sh)).
    { intros [A B]. apply Rltb_true in A. apply Rltb_true in B. rewrite A, B in B3. discriminate. }
    destruct (Rleb 0 t && Rleb t l) eqn:B4.
    { apply andb_true_iff in B4. destruct B4 as [A B]. bfalse.
      destruct (cone_slope_slab rho z (conj A B) N3 N1 N2) as [S1 S2]. fold d in S1, S2. split; lra. }
    destruct (Rltb t 0) eqn:B5.
    - pose proof (le_sqrt2_l (rho - sr0) (z - - sh)). pose proof (le_sqrt2_r (rho - sr0) (z - - sh)).
      pose proof (le_sqrt2_r (rho - sr0) (- (z - - sh))) as Q.
      replace ((rho - sr0) * (rho - sr0) + - (z - - sh) * - (z - - sh)) with ((rho - sr0) * (rho - sr0) + (z - - sh) * (z - - sh)) in Q by ring.
      split; [lra|]. unfold Rabs; destruct (Rcase_abs z); lra.
    - pose proof (le_sqrt2_l (rho - sr1) (z - sh)). pose proof (le_sqrt2_r (rho - sr1) (z - sh)).
      pose proof (le_sqrt2_r (rho - sr1) (- (z - sh))) as Q.
      replace ((rho - sr1) * (rho - sr1) + - (z - sh) * - (z - sh)) with ((rho - sr1) * (rho - sr1) + (z - sh) * (z - sh)) in Q by ring.
      split; [lra|]. unfold Rabs; destruct (Rcase_abs z); lra.
  Qed.
End ConeSlab.


Theorem cone_lbinf h r0 r1 round o : 0 <= r0 -> 0 <= r1 -> @k_cone ROps h r0 r1 round = Some o -> lbinf_3 o.
Proof.
  intros H0 H1 H. destruct (cone_obj_eq _ _ _ _ _ H) as (-> & Hh & Hr & Hhr).
  pose proof (cone_r_nonneg h r0 r1 round Hh Hr Hhr H0 H1) as Hcr.
  destruct (cone_facts h r0 r1 round Hh Hhr) as (U1 & Uy & Hsh & Hl & E1 & E2). cbv zeta in *.
  apply slab_all_lbinf3; cbn [bb3 ev3 cone_obj].
  - unfold ordered3; cbn [b3min b3max wx wy wz]. rewrite two_eq. lra.
  - intros p. destruct (cone_slab _ _ _ round _ _ _ U1 Uy Hsh Hl E1 E2 (@v2len ROps (mkV2 (wx p) (wy p))) (wz p)) as [Sr Sz].
    cbv zeta in Sr, Sz.
    assert (Er : Rmax (cone_sr0 h r0 r1 round) (cone_sr1 h r0 r1 round) + round = cone_r h r0 r1 round).
    { unfold cone_r. unfold Rmax; repeat destruct (Rle_dec _ _); lra. }
    unfold slab3; cbn [b3min b3max wx wy wz].
    match goal with |- context [cone_field ?a ?b ?c ?d ?e ?f ?g ?hh] => set (F := cone_field a b c d e f g hh) end.
    assert (Sr' : len2 (mkV2 (wx p) (wy p)) - cone_r h r0 r1 round <= F) by (rewrite <- Er; exact Sr).
    assert (Sz' : Rabs (wz p) - (cone_sh h round + round) <= F) by exact Sz.
    clearbody F. clear Sr Sz. unfold cone_sh in Sz'. rewrite two_eq in *.
    pose proof (abs_le_len2_x (mkV2 (wx p) (wy p))) as X. pose proof (abs_le_len2_y (mkV2 (wx p) (wy p))) as Y.
    cbn [vx vy] in X, Y.
    pose proof (Rabs_ge_l (wx p)). pose proof (Rabs_ge_r (wx p)). pose proof (Rabs_ge_l (wy p)). pose proof (Rabs_ge_r (wy p)).
    pose proof (Rabs_ge_l (wz p)). pose proof (Rabs_ge_r (wz p)).
    repeat split; lra.
Qed.
