(* The control skeletons that harness/profgen extracts from the CURRENT sdf/poly.go and
   sdf/bezier.go (coq/Generated/ProfSkel.v, rewritten on every run of ./check C17) are the
   hand-written model functions the C17 theorems are about.

   nextVertex, createArcs, smoothVertices, fixups: equal by conversion (reflexivity);
   prevVertex: `if i == 0` against the model's `match i`; Bezier.Polygon: the generated step
   function of the endpoint/midpoint loop, iterated by the schema of `for cond { body }`, never
   runs out of fuel, fails exactly when the model's split_splines does and leaves in `splines`
   exactly the model's list of control-point lists (NewBezierSpline kept symbolic: identity). *)
From Coq Require Import ZArith List Bool Arith Lia String.
From Sdfx Require Import Num.Ops.
From Sdfx Require Import Geo.Vec.
From Sdfx Require Import Sdf.Build.
From Sdfx Require Import Sdf.Bezier.
From Sdfx Require Import Sdf.BezierWhole.
From Sdfx Require Import Generated.ProfSkel.
Import ListNotations.
Local Open Scope nat_scope.

(* the methods the Go loops are expected to call, by name *)
Definition want_createArcs_calls : list string := ["arcVertex"%string].
Definition want_smoothVertices_calls : list string := ["smoothVertex"%string].
Definition want_fixups_calls : list string := ["relToAbs"%string; "createArcs"%string; "smoothVertices"%string].

Section ProfEq.
  Context {O : Ops}.

  Theorem SKEL_nextVertex closed (l : list (PV O)) i : gen_nextVertex closed l i = next_vertex closed l i.
  Proof. reflexivity. Qed.

  Theorem SKEL_prevVertex closed (l : list (PV O)) i : gen_prevVertex closed l i = prev_vertex closed l i.
  Proof.
    unfold gen_prevVertex, prev_vertex. destruct i as [|j]; cbn [Nat.eqb]; [reflexivity|].
    replace (S j - 1) with j by lia. reflexivity.
  Qed.

  Theorem SKEL_createArcs closed (l : list (PV O)) :
    gen_createArcs (arc_vertex closed) l = create_arcs closed l /\ @gen_createArcs_calls = want_createArcs_calls.
  Proof. split; reflexivity. Qed.

  Theorem SKEL_smoothVertices closed (l : list (PV O)) :
    gen_smoothVertices (smooth_vertex closed) l = smooth_vertices closed l /\
    @gen_smoothVertices_calls = want_smoothVertices_calls.
  Proof. split; reflexivity. Qed.

  Theorem SKEL_fixups (p : Polygon O) :
    gen_fixups (rel_to_abs (pg_closed p)) (create_arcs (pg_closed p)) (smooth_vertices (pg_closed p)) (pg_vlist p)
      = fixups p /\
    @gen_fixups_calls = want_fixups_calls.
  Proof. split; reflexivity. Qed.

  (* ---- Bezier.Polygon: `for cond { body }` *)
  (* None = out of fuel; Some None = `return nil, err`; Some (Some s) = the loop was left *)
  Fixpoint gen_run {Sp : Type} (NS : list (V2 O) -> Sp) (vlist : list (BV O)) (n fuel : nat) (s : PolySt O Sp)
    : option (option (PolySt O Sp)) :=
    match fuel with
    | 0 => None
    | S f =>
      if gen_polygon_cond n s then
        match gen_polygon_body NS vlist n s with
        | FNext s' => gen_run NS vlist n f s'
        | FBreak s' => Some (Some s')
        | FFail => Some None
        end
      else Some (Some s)
    end.

  Definition run_splines (l : list (BV O)) (fuel : nat) (s : PolySt O (list (V2 O))) : option (option (list (list (V2 O)))) :=
    option_map (option_map ps_splines) (gen_run (fun x => x) l (List.length l) fuel s).

  (* in state midpoint at index |pre|, `vertices` = cur, `splines` = acc *)
  Lemma run_open : forall (rest pre : list (BV O)) cur acc fuel,
    2 * List.length rest + 1 <= fuel ->
    run_splines (pre ++ rest) fuel (mkPolySt true (List.length pre) cur acc) =
    Some (Some (acc ++ spans_from (rev cur) rest)).
  Proof.
    induction rest as [|v r IH]; intros pre cur acc fuel Hf.
    - destruct fuel as [|f]; [cbn in Hf; lia|]. unfold run_splines. cbn [gen_run].
      unfold gen_polygon_cond. cbn [ps_i]. rewrite app_nil_r, Nat.ltb_irrefl. cbn. rewrite app_nil_r. reflexivity.
    - destruct fuel as [|f]; [lia|]. unfold run_splines. cbn [gen_run].
      unfold gen_polygon_cond. cbn [ps_i].
      assert (LT : Nat.ltb (List.length pre) (List.length (pre ++ v :: r)) = true).
      { apply Nat.ltb_lt. rewrite app_length. cbn. lia. }
      rewrite LT. unfold gen_polygon_body. cbn [ps_i ps_state ps_vertices ps_splines].
      rewrite nth_middle. cbn [Bool.eqb].
      destruct (bv_mid v) eqn:Hm; cbn [Bool.eqb spans_from]; rewrite Hm.
      + (* a midpoint: one more control point *)
        fold (run_splines (pre ++ v :: r) f (mkPolySt true (S (List.length pre)) (cur ++ [bv_v v]) acc)).
        replace (pre ++ v :: r) with ((pre ++ [v]) ++ r) by (rewrite <- app_assoc; reflexivity).
        replace (S (List.length pre)) with (List.length (pre ++ [v])) by (rewrite app_length; cbn; lia).
        rewrite IH by (cbn [List.length] in Hf; lia). rewrite rev_unit. reflexivity.
      + (* an end point: the span is closed *)
        assert (RC : rev (bv_v v :: rev cur) = cur ++ [bv_v v]).
        { cbn [rev]. rewrite rev_involutive. reflexivity. }
        destruct r as [|w r'].
        * replace (Nat.eqb (List.length pre) (List.length (pre ++ [v]) - 1)) with true
            by (symmetry; apply Nat.eqb_eq; rewrite app_length; cbn; lia).
          cbn. rewrite rev_involutive. reflexivity.
        * replace (Nat.eqb (List.length pre) (List.length (pre ++ v :: w :: r') - 1)) with false
            by (symmetry; apply Nat.eqb_neq; rewrite app_length; cbn; lia).
          (* the same end point again, now in state endpoint: it opens the next span *)
          destruct f as [|f']; [cbn [List.length] in Hf; lia|]. cbn [gen_run].
          unfold gen_polygon_cond. cbn [ps_i]. rewrite LT.
          unfold gen_polygon_body. cbn [ps_i ps_state ps_vertices ps_splines].
          rewrite nth_middle. cbn [Bool.eqb]. rewrite Hm. cbn [Bool.eqb].
          fold (run_splines (pre ++ v :: w :: r') f'
                  (mkPolySt true (S (List.length pre)) [bv_v v] (acc ++ [cur ++ [bv_v v]]))).
          replace (pre ++ v :: w :: r') with ((pre ++ [v]) ++ w :: r') by (rewrite <- app_assoc; reflexivity).
          replace (S (List.length pre)) with (List.length (pre ++ [v])) by (rewrite app_length; cbn; lia).
          rewrite IH by (cbn [List.length] in *; lia).
          rewrite RC, <- app_assoc. reflexivity.
  Qed.

  (* the loop of Bezier.Polygon, as translated from the source, computes split_splines *)
  Theorem SKEL_polygon_loop (l : list (BV O)) :
    gen_polygon_n l = List.length l /\
    run_splines l (2 * List.length l + 3) gen_polygon_init = Some (split_splines l).
  Proof.
    split; [reflexivity|]. rewrite split_splines_spec. unfold spans, gen_polygon_init.
    destruct l as [|v r].
    - reflexivity.
    - unfold run_splines. replace (2 * List.length (v :: r) + 3) with (S (2 * List.length r + 4)) by (cbn [List.length]; lia).
      cbn [gen_run]. unfold gen_polygon_cond. cbn [ps_i List.length Nat.ltb Nat.leb].
      unfold gen_polygon_body. cbn [ps_i ps_state ps_vertices ps_splines nth Bool.eqb].
      destruct (bv_mid v) eqn:Hm; cbn [Bool.eqb]; [reflexivity|].
      fold (run_splines (v :: r) (2 * List.length r + 4) (mkPolySt true 1 [bv_v v] [])).
      exact (run_open r [v] [bv_v v] [] (2 * List.length r + 4) ltac:(lia)).
  Qed.
End ProfEq.
