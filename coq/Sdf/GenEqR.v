(* Consequences, at the real-number instance, of the equalities of Sdf/GenEq.v between the
   definitions translated from the Go source (Generated/SdfExpr.v) and the model: theorems of the
   development restated about the translated code itself. *)
From Coq Require Import Reals List Lia.
From Sdfx Require Import Num.Ops Num.RInst Geo.Vec Geo.Box Sdf.Union2 Sdf.Union2R Sdf.Shape Generated.SdfExpr Sdf.GenEq.
Import ListNotations.

(* C16: the pruned UnionSDF2.Evaluate generated from the source equals the generated EvaluateSlow *)
Lemma go_union_prune_eq : forall (l : list (Obj2 ROps)) (p : V2 ROps),
  l <> [] ->
  Forall iv_ok (map (fun x => (box2_minmax (bb2 x) p, ev2 x p)) l) ->
  Forall lower_ok (map (fun x => (box2_minmax (bb2 x) p, ev2 x p)) l) ->
  @sdf_UnionSDF2_Evaluate ROps (map pf2 l) Rmin false p = @sdf_UnionSDF2_EvaluateSlow ROps (map pf2 l) Rmin p.
Proof.
  intros l p Hne Hiv Hlo.
  rewrite (@UnionSlow2_eq ROps).
  assert (Hlen : (0 < length l)%nat) by (destruct l; [contradiction | cbn; lia]).
  transitivity (@evaluate ROps false Rmin (map (fun x => (box2_minmax (bb2 x) p, ev2 x p)) l)).
  { exact (@Union2_eval_eq ROps (@MinDef ROps) l p Hlen). }
  apply union_prune_eq_strong; [ | exact Hiv | exact Hlo].
  destruct l; [contradiction | discriminate].
Qed.

(* C16: SetMin installs the blend function and switches the pruning off: Evaluate is then EvaluateSlow *)
Lemma go_union_setmin_blend : forall (minf : R -> R -> R) (l : list (Obj2 ROps)) (p : V2 ROps),
  @sdf_UnionSDF2_SetMin ROps minf = (minf, true) /\
  @sdf_UnionSDF2_Evaluate ROps (map pf2 l) (fst (@sdf_UnionSDF2_SetMin ROps minf)) (snd (@sdf_UnionSDF2_SetMin ROps minf)) p =
  @sdf_UnionSDF2_EvaluateSlow ROps (map pf2 l) minf p.
Proof. intros. split; reflexivity. Qed.
