(* vec/v2, vec/v3: component-wise float64 vectors (model of vec/v2/v2.go, vec/v3/v3.go). *)
From Coq Require Import ZArith List Bool.
From Sdfx Require Import Num.Ops.
Import OpsNotations ListNotations.
Local Open Scope ops_scope.

Section Vec.
  Context {O : Ops}.
  Notation T := (T O).

  Record V2 := mkV2 { vx : T; vy : T }.
  Record V3 := mkV3 { wx : T; wy : T; wz : T }.

  (* vec.clamp / sdf.Clamp *)
  Definition clamp (x a b : T) : T := if x <? a then a else if x >? b then b else x.
  (* sdf.Mix *)
  Definition mix (x y a : T) : T := x + (a * (y - x)).
  (* sdf.Sign *)
  Definition sign (x : T) : T := if x <? o0 O then - (o1 O) else if x >? o0 O then o1 O else o0 O.

  (* ---- V2 *)
  Definition v2add (a b : V2) := mkV2 (vx a + vx b) (vy a + vy b).
  Definition v2sub (a b : V2) := mkV2 (vx a - vx b) (vy a - vy b).
  Definition v2mul (a b : V2) := mkV2 (vx a * vx b) (vy a * vy b).
  Definition v2div (a b : V2) := mkV2 (vx a / vx b) (vy a / vy b).
  Definition v2neg (a : V2) := mkV2 (- vx a) (- vy a).
  Definition v2abs (a : V2) := mkV2 (oabs O (vx a)) (oabs O (vy a)).
  Definition v2muls (a : V2) (k : T) := mkV2 (vx a * k) (vy a * k).
  (* Vec.DivScalar(b) is a.MulScalar(1 / b) in Go *)
  Definition v2divs (a : V2) (k : T) := let r := o1 O / k in mkV2 (vx a * r) (vy a * r).
  Definition v2adds (a : V2) (k : T) := mkV2 (vx a + k) (vy a + k).
  Definition v2subs (a : V2) (k : T) := mkV2 (vx a - k) (vy a - k).
  Definition v2min (a b : V2) := mkV2 (omin O (vx a) (vx b)) (omin O (vy a) (vy b)).
  Definition v2max (a b : V2) := mkV2 (omax O (vx a) (vx b)) (omax O (vy a) (vy b)).
  Definition v2dot (a b : V2) : T := vx a * vx b + vy a * vy b.
  Definition v2cross (a b : V2) : T := vx a * vy b - vy a * vx b.
  Definition v2len2 (a : V2) : T := v2dot a a.
  Definition v2len (a : V2) : T := osqrt O (v2len2 a).
  Definition v2normalize (a : V2) : V2 := v2muls a (o1 O / v2len a).
  Definition v2clamp (a b c : V2) := mkV2 (clamp (vx a) (vx b) (vx c)) (clamp (vy a) (vy b) (vy c)).
  Definition v2mincomp (a : V2) : T := omin O (vx a) (vy a).
  Definition v2maxcomp (a : V2) : T := omax O (vx a) (vy a).
  Definition v2zero := mkV2 (o0 O) (o0 O).

  (* ---- V3 *)
  Definition v3add (a b : V3) := mkV3 (wx a + wx b) (wy a + wy b) (wz a + wz b).
  Definition v3sub (a b : V3) := mkV3 (wx a - wx b) (wy a - wy b) (wz a - wz b).
  Definition v3mul (a b : V3) := mkV3 (wx a * wx b) (wy a * wy b) (wz a * wz b).
  Definition v3div (a b : V3) := mkV3 (wx a / wx b) (wy a / wy b) (wz a / wz b).
  Definition v3neg (a : V3) := mkV3 (- wx a) (- wy a) (- wz a).
  Definition v3abs (a : V3) := mkV3 (oabs O (wx a)) (oabs O (wy a)) (oabs O (wz a)).
  Definition v3muls (a : V3) (k : T) := mkV3 (wx a * k) (wy a * k) (wz a * k).
  Definition v3divs (a : V3) (k : T) := let r := o1 O / k in mkV3 (wx a * r) (wy a * r) (wz a * r).
  Definition v3adds (a : V3) (k : T) := mkV3 (wx a + k) (wy a + k) (wz a + k).
  Definition v3subs (a : V3) (k : T) := mkV3 (wx a - k) (wy a - k) (wz a - k).
  Definition v3min (a b : V3) := mkV3 (omin O (wx a) (wx b)) (omin O (wy a) (wy b)) (omin O (wz a) (wz b)).
  Definition v3max (a b : V3) := mkV3 (omax O (wx a) (wx b)) (omax O (wy a) (wy b)) (omax O (wz a) (wz b)).
  Definition v3dot (a b : V3) : T := wx a * wx b + wy a * wy b + wz a * wz b.
  Definition v3cross (a b : V3) : V3 :=
    mkV3 (wy a * wz b - wz a * wy b) (wz a * wx b - wx a * wz b) (wx a * wy b - wy a * wx b).
  Definition v3len2 (a : V3) : T := v3dot a a.
  Definition v3len (a : V3) : T := osqrt O (v3len2 a).
  Definition v3normalize (a : V3) : V3 := v3muls a (o1 O / v3len a).
  Definition v3clamp (a b c : V3) :=
    mkV3 (clamp (wx a) (wx b) (wx c)) (clamp (wy a) (wy b) (wy c)) (clamp (wz a) (wz b) (wz c)).
  Definition v3mincomp (a : V3) : T := omin O (omin O (wx a) (wy a)) (wz a).
  Definition v3maxcomp (a : V3) : T := omax O (omax O (wx a) (wy a)) (wz a).
  Definition v3zero := mkV3 (o0 O) (o0 O) (o0 O).
End Vec.

Arguments V2 : clear implicits.
Arguments V3 : clear implicits.
Arguments mkV2 {O}.
Arguments mkV3 {O}.
