(* Euclidean norm toolkit over the reals for the ROps instance of Geo/Vec.v. *)
From Coq Require Import Reals Lra Lia List Bool ZArith.
From Sdfx Require Import Num.Ops Num.RInst Geo.Vec.
Open Scope R_scope.

Notation RV2 := (V2 ROps).
Notation RV3 := (V3 ROps).

Definition len2 (p : RV2) : R := sqrt (vx p * vx p + vy p * vy p).
Definition len3 (p : RV3) : R := sqrt (wx p * wx p + wy p * wy p + wz p * wz p).
Definition sub2 (p q : RV2) : RV2 := mkV2 (vx p - vx q) (vy p - vy q).
Definition sub3 (p q : RV3) : RV3 := mkV3 (wx p - wx q) (wy p - wy q) (wz p - wz q).
Definition dist2 (p q : RV2) : R := len2 (sub2 p q).
Definition dist3 (p q : RV3) : R := len3 (sub3 p q).

(* the model's vector functions at ROps are these *)
Lemma v2len_eq p : @v2len ROps p = len2 p.
Proof. reflexivity. Qed.
Lemma v3len_eq p : @v3len ROps p = len3 p.
Proof. reflexivity. Qed.
Lemma v2sub_eq p q : @v2sub ROps p q = sub2 p q.
Proof. reflexivity. Qed.
Lemma v3sub_eq p q : @v3sub ROps p q = sub3 p q.
Proof. reflexivity. Qed.

Lemma sq_nonneg2 a b : 0 <= a * a + b * b.
Proof. nra. Qed.
Lemma sq_nonneg3 a b c : 0 <= a * a + b * b + c * c.
Proof. nra. Qed.

Lemma len2_nonneg p : 0 <= len2 p.
Proof. apply sqrt_pos. Qed.
Lemma len3_nonneg p : 0 <= len3 p.
Proof. apply sqrt_pos. Qed.
Lemma len2_sq p : len2 p * len2 p = vx p * vx p + vy p * vy p.
Proof. unfold len2. apply sqrt_sqrt, sq_nonneg2. Qed.
Lemma len3_sq p : len3 p * len3 p = wx p * wx p + wy p * wy p + wz p * wz p.
Proof. unfold len3. apply sqrt_sqrt, sq_nonneg3. Qed.

(* comparing a non-negative number with a norm through squares *)
Lemma le_len2 t p : 0 <= t -> t * t <= vx p * vx p + vy p * vy p -> t <= len2 p.
Proof.
  intros Ht H. rewrite <- (sqrt_square t Ht). unfold len2. apply sqrt_le_1_alt. exact H.
Qed.
Lemma len2_le t p : 0 <= t -> vx p * vx p + vy p * vy p <= t * t -> len2 p <= t.
Proof.
  intros Ht H. rewrite <- (sqrt_square t Ht). unfold len2. apply sqrt_le_1_alt. exact H.
Qed.
Lemma le_len3 t p : 0 <= t -> t * t <= wx p * wx p + wy p * wy p + wz p * wz p -> t <= len3 p.
Proof.
  intros Ht H. rewrite <- (sqrt_square t Ht). unfold len3. apply sqrt_le_1_alt. exact H.
Qed.
Lemma len3_le t p : 0 <= t -> wx p * wx p + wy p * wy p + wz p * wz p <= t * t -> len3 p <= t.
Proof.
  intros Ht H. rewrite <- (sqrt_square t Ht). unfold len3. apply sqrt_le_1_alt. exact H.
Qed.

Lemma abs_le_len2_x p : Rabs (vx p) <= len2 p.
Proof.
  apply le_len2; [apply Rabs_pos|]. rewrite <- Rabs_mult. rewrite (Rabs_pos_eq (vx p * vx p)); nra.
Qed.
Lemma abs_le_len2_y p : Rabs (vy p) <= len2 p.
Proof.
  apply le_len2; [apply Rabs_pos|]. rewrite <- Rabs_mult. rewrite (Rabs_pos_eq (vy p * vy p)); nra.
Qed.
Lemma abs_le_len3_x p : Rabs (wx p) <= len3 p.
Proof.
  apply le_len3; [apply Rabs_pos|]. rewrite <- Rabs_mult. rewrite (Rabs_pos_eq (wx p * wx p)); nra.
Qed.
Lemma abs_le_len3_y p : Rabs (wy p) <= len3 p.
Proof.
  apply le_len3; [apply Rabs_pos|]. rewrite <- Rabs_mult. rewrite (Rabs_pos_eq (wy p * wy p)); nra.
Qed.
Lemma abs_le_len3_z p : Rabs (wz p) <= len3 p.
Proof.
  apply le_len3; [apply Rabs_pos|]. rewrite <- Rabs_mult. rewrite (Rabs_pos_eq (wz p * wz p)); nra.
Qed.

(* Cauchy-Schwarz and the triangle inequality *)
Lemma cauchy2 a b c d : (a * c + b * d) * (a * c + b * d) <= (a * a + b * b) * (c * c + d * d).
Proof.
  assert (L : (a * a + b * b) * (c * c + d * d) - (a * c + b * d) * (a * c + b * d) = (a * d - b * c) * (a * d - b * c)) by ring.
  pose proof (Rle_0_sqr (a * d - b * c)) as S1. unfold Rsqr in *. lra.
Qed.
Lemma cauchy3 a b c d e f :
  (a * d + b * e + c * f) * (a * d + b * e + c * f) <= (a * a + b * b + c * c) * (d * d + e * e + f * f).
Proof.
  assert (L : (a * a + b * b + c * c) * (d * d + e * e + f * f) - (a * d + b * e + c * f) * (a * d + b * e + c * f)
              = (a * e - b * d) * (a * e - b * d) + (a * f - c * d) * (a * f - c * d) + (b * f - c * e) * (b * f - c * e)) by ring.
  pose proof (Rle_0_sqr (a * e - b * d)) as S1. pose proof (Rle_0_sqr (a * f - c * d)) as S2.
  pose proof (Rle_0_sqr (b * f - c * e)) as S3. unfold Rsqr in *. lra.
Qed.

Lemma dot_le_len2 p q : vx p * vx q + vy p * vy q <= len2 p * len2 q.
Proof.
  pose proof (len2_nonneg p). pose proof (len2_nonneg q).
  pose proof (cauchy2 (vx p) (vy p) (vx q) (vy q)) as C.
  rewrite <- (len2_sq p), <- (len2_sq q) in C.
  destruct (Rle_dec (vx p * vx q + vy p * vy q) 0); [nra|].
  apply Rsqr_incr_0_var; [unfold Rsqr; nra | nra].
Qed.
Lemma dot_le_len3 p q : wx p * wx q + wy p * wy q + wz p * wz q <= len3 p * len3 q.
Proof.
  pose proof (len3_nonneg p). pose proof (len3_nonneg q).
  pose proof (cauchy3 (wx p) (wy p) (wz p) (wx q) (wy q) (wz q)) as C.
  rewrite <- (len3_sq p), <- (len3_sq q) in C.
  destruct (Rle_dec (wx p * wx q + wy p * wy q + wz p * wz q) 0); [nra|].
  apply Rsqr_incr_0_var; [unfold Rsqr; nra | nra].
Qed.

Lemma triangle2 p q : len2 (mkV2 (vx p + vx q) (vy p + vy q)) <= len2 p + len2 q.
Proof.
  pose proof (len2_nonneg p). pose proof (len2_nonneg q).
  apply len2_le; [lra|]. cbn [vx vy].
  pose proof (dot_le_len2 p q). pose proof (len2_sq p). pose proof (len2_sq q). nra.
Qed.
Lemma triangle3 p q : len3 (mkV3 (wx p + wx q) (wy p + wy q) (wz p + wz q)) <= len3 p + len3 q.
Proof.
  pose proof (len3_nonneg p). pose proof (len3_nonneg q).
  apply len3_le; [lra|]. cbn [wx wy wz].
  pose proof (dot_le_len3 p q). pose proof (len3_sq p). pose proof (len3_sq q). nra.
Qed.

(* reverse triangle inequality: the norm is 1-Lipschitz *)
Lemma len2_lip p q : Rabs (len2 p - len2 q) <= dist2 p q.
Proof.
  unfold dist2.
  pose proof (triangle2 (sub2 p q) q) as T1. pose proof (triangle2 (sub2 q p) p) as T2.
  cbn [sub2 vx vy] in T1, T2.
  replace (mkV2 (vx p - vx q + vx q) (vy p - vy q + vy q)) with p in T1
    by (destruct p; cbn; f_equal; rring).
  replace (mkV2 (vx q - vx p + vx p) (vy q - vy p + vy p)) with q in T2
    by (destruct q; cbn; f_equal; rring).
  assert (E : len2 (sub2 q p) = len2 (sub2 p q)).
  { unfold len2, sub2; cbn [vx vy]. f_equal. ring. }
  rewrite E in T2. apply Rabs_le. lra.
Qed.
Lemma len3_lip p q : Rabs (len3 p - len3 q) <= dist3 p q.
Proof.
  unfold dist3.
  pose proof (triangle3 (sub3 p q) q) as T1. pose proof (triangle3 (sub3 q p) p) as T2.
  cbn [sub3 wx wy wz] in T1, T2.
  replace (mkV3 (wx p - wx q + wx q) (wy p - wy q + wy q) (wz p - wz q + wz q)) with p in T1
    by (destruct p; cbn; f_equal; rring).
  replace (mkV3 (wx q - wx p + wx p) (wy q - wy p + wy p) (wz q - wz p + wz p)) with q in T2
    by (destruct q; cbn; f_equal; rring).
  assert (E : len3 (sub3 q p) = len3 (sub3 p q)).
  { unfold len3, sub3; cbn [wx wy wz]. f_equal. ring. }
  rewrite E in T2. apply Rabs_le. lra.
Qed.

Lemma dist2_sym p q : dist2 p q = dist2 q p.
Proof. unfold dist2, len2, sub2; cbn [vx vy]. f_equal. ring. Qed.
Lemma dist3_sym p q : dist3 p q = dist3 q p.
Proof. unfold dist3, len3, sub3; cbn [wx wy wz]. f_equal. ring. Qed.
Lemma dist2_triangle p q r : dist2 p r <= dist2 p q + dist2 q r.
Proof.
  unfold dist2. pose proof (triangle2 (sub2 p q) (sub2 q r)) as T. cbn [sub2 vx vy] in T.
  replace (mkV2 (vx p - vx q + (vx q - vx r)) (vy p - vy q + (vy q - vy r))) with (sub2 p r) in T
    by (unfold sub2; f_equal; rring). exact T.
Qed.
Lemma dist3_triangle p q r : dist3 p r <= dist3 p q + dist3 q r.
Proof.
  unfold dist3. pose proof (triangle3 (sub3 p q) (sub3 q r)) as T. cbn [sub3 wx wy wz] in T.
  replace (mkV3 (wx p - wx q + (wx q - wx r)) (wy p - wy q + (wy q - wy r)) (wz p - wz q + (wz q - wz r)))
    with (sub3 p r) in T by (unfold sub3; f_equal; rring). exact T.
Qed.
