(* sdf/box2.go, sdf/box3.go: box algebra and point/box squared-distance intervals;
   sdf/line.go: Interval.  Model follows the Go code statement by statement. *)
From Coq Require Import ZArith List Bool.
From Sdfx Require Import Num.Ops Geo.Vec.
Import OpsNotations ListNotations.
Local Open Scope ops_scope.

Section Box.
  Context {O : Ops}.
  Notation T := (T O).
  Notation V2 := (V2 O).
  Notation V3 := (V3 O).

  Record Box2 := mkBox2 { b2min : V2; b2max : V2 }.
  Record Box3 := mkBox3 { b3min : V3; b3max : V3 }.
  Definition Interval := (T * T)%type.

  (* ---- Interval *)
  Definition iv_overlap (a b : Interval) : bool := (fst b <=? snd a) && (fst a <=? snd b).

  (* ---- Box2 *)
  Definition newbox2 (center size : V2) : Box2 :=
    let h := v2muls size half in mkBox2 (v2sub center h) (v2add center h).
  Definition box2_extend (a b : Box2) := mkBox2 (v2min (b2min a) (b2min b)) (v2max (b2max a) (b2max b)).
  Definition box2_include (a : Box2) (v : V2) := mkBox2 (v2min (b2min a) v) (v2max (b2max a) v).
  Definition box2_translate (a : Box2) (v : V2) := mkBox2 (v2add (b2min a) v) (v2add (b2max a) v).
  Definition box2_size (a : Box2) : V2 := v2sub (b2max a) (b2min a).
  Definition box2_center (a : Box2) : V2 := v2add (b2min a) (v2muls (box2_size a) half).
  Definition box2_scale_about_center (a : Box2) (k : T) := newbox2 (box2_center a) (v2muls (box2_size a) k).
  Definition box2_enlarge (a : Box2) (v : V2) :=
    let v := v2muls v half in mkBox2 (v2sub (b2min a) v) (v2add (b2max a) v).
  Definition box2_contains (a : Box2) (v : V2) : bool :=
    (vx v >=? vx (b2min a)) && (vy v >=? vy (b2min a)) && (vx v <=? vx (b2max a)) && (vy v <=? vy (b2max a)).
  Definition box2_vertices (a : Box2) : list V2 :=
    [ b2min a; mkV2 (vx (b2max a)) (vy (b2min a)); mkV2 (vx (b2min a)) (vy (b2max a)); b2max a ].

  (* the vertex loop shared by both MinMaxDist2: min starts at the first d2, max at 0 *)
  Fixpoint vertex_loop (d2s : list T) (first : bool) (mn mx : T) : T * T :=
    match d2s with
    | [] => (mn, mx)
    | d2 :: r => vertex_loop r false (if first then d2 else omin O mn d2) (omax O mx d2)
    end.

  Definition box2_minmax (a : Box2) (p : V2) : Interval :=
    let a := box2_translate a (v2neg p) in
    let '(mn, mx) := vertex_loop (map v2len2 (box2_vertices a)) true (o0 O) (o0 O) in
    let withinX := (vx (b2min a) <? o0 O) && (vx (b2max a) >? o0 O) in
    let withinY := (vy (b2min a) <? o0 O) && (vy (b2max a) >? o0 O) in
    if withinX && withinY then (o0 O, mx)
    else
      let mn := if withinX then
                  let d := omin O (oabs O (vy (b2max a))) (oabs O (vy (b2min a))) in omin O mn (d * d)
                else mn in
      let mn := if withinY then
                  let d := omin O (oabs O (vx (b2max a))) (oabs O (vx (b2min a))) in omin O mn (d * d)
                else mn in
      (mn, mx).

  (* ---- Box3 *)
  Definition newbox3 (center size : V3) : Box3 :=
    let h := v3muls size half in mkBox3 (v3sub center h) (v3add center h).
  Definition box3_extend (a b : Box3) := mkBox3 (v3min (b3min a) (b3min b)) (v3max (b3max a) (b3max b)).
  Definition box3_include (a : Box3) (v : V3) := mkBox3 (v3min (b3min a) v) (v3max (b3max a) v).
  Definition box3_translate (a : Box3) (v : V3) := mkBox3 (v3add (b3min a) v) (v3add (b3max a) v).
  Definition box3_size (a : Box3) : V3 := v3sub (b3max a) (b3min a).
  Definition box3_center (a : Box3) : V3 := v3add (b3min a) (v3muls (box3_size a) half).
  Definition box3_scale_about_center (a : Box3) (k : T) := newbox3 (box3_center a) (v3muls (box3_size a) k).
  Definition box3_enlarge (a : Box3) (v : V3) :=
    let v := v3muls v half in mkBox3 (v3sub (b3min a) v) (v3add (b3max a) v).
  Definition box3_contains (a : Box3) (v : V3) : bool :=
    (wx (b3min a) <=? wx v) && (wy (b3min a) <=? wy v) && (wz (b3min a) <=? wz v) &&
    (wx v <=? wx (b3max a)) && (wy v <=? wy (b3max a)) && (wz v <=? wz (b3max a)).
  Definition box3_vertices (a : Box3) : list V3 :=
    let mn := b3min a in let mx := b3max a in
    [ mn; mkV3 (wx mn) (wy mn) (wz mx); mkV3 (wx mn) (wy mx) (wz mn); mkV3 (wx mn) (wy mx) (wz mx);
      mkV3 (wx mx) (wy mn) (wz mn); mkV3 (wx mx) (wy mn) (wz mx); mkV3 (wx mx) (wy mx) (wz mn); mx ].

  Definition box3_minmax (a : Box3) (p : V3) : Interval :=
    let a := box3_translate a (v3neg p) in
    let '(mn, mx) := vertex_loop (map v3len2 (box3_vertices a)) true (o0 O) (o0 O) in
    let mnv := b3min a in let mxv := b3max a in
    let withinX := (wx mnv <? o0 O) && (wx mxv >? o0 O) in
    let withinY := (wy mnv <? o0 O) && (wy mxv >? o0 O) in
    let withinZ := (wz mnv <? o0 O) && (wz mxv >? o0 O) in
    if withinX && withinY && withinZ then (o0 O, mx)
    else
      let dx := omin O (oabs O (wx mxv)) (oabs O (wx mnv)) in
      let dy := omin O (oabs O (wy mxv)) (oabs O (wy mnv)) in
      let dz := omin O (oabs O (wz mxv)) (oabs O (wz mnv)) in
      (* faces *)
      let mn := if withinX && withinY then omin O mn (dz * dz) else mn in
      let mn := if withinX && withinZ then omin O mn (dy * dy) else mn in
      let mn := if withinY && withinZ then omin O mn (dx * dx) else mn in
      (* edges *)
      let mn := if withinX then omin O mn (dy * dy + dz * dz) else mn in
      let mn := if withinY then omin O mn (dx * dx + dz * dz) else mn in
      let mn := if withinZ then omin O mn (dx * dx + dy * dy) else mn in
      (mn, mx).
End Box.

Arguments Box2 : clear implicits.
Arguments Box3 : clear implicits.
Arguments Interval : clear implicits.
Arguments mkBox2 {O}.
Arguments mkBox3 {O}.

(* ---- the specification the intervals are compared with (sqrt-free, runs at QOps) *)
Section BoxSpec.
  Context {O : Ops}.
  Notation T := (T O).
  Definition axis_min2 (lo hi p : T) : T := let c := clamp p lo hi in (p - c) * (p - c).
  Definition axis_max2 (lo hi p : T) : T := omax O ((p - lo) * (p - lo)) ((p - hi) * (p - hi)).
  Definition spec2_minmax (b : Box2 O) (p : V2 O) : Interval O :=
    (axis_min2 (vx (b2min b)) (vx (b2max b)) (vx p) + axis_min2 (vy (b2min b)) (vy (b2max b)) (vy p),
     axis_max2 (vx (b2min b)) (vx (b2max b)) (vx p) + axis_max2 (vy (b2min b)) (vy (b2max b)) (vy p)).
  Definition spec3_minmax (b : Box3 O) (p : V3 O) : Interval O :=
    (axis_min2 (wx (b3min b)) (wx (b3max b)) (wx p) + axis_min2 (wy (b3min b)) (wy (b3max b)) (wy p)
       + axis_min2 (wz (b3min b)) (wz (b3max b)) (wz p),
     axis_max2 (wx (b3min b)) (wx (b3max b)) (wx p) + axis_max2 (wy (b3min b)) (wy (b3max b)) (wy p)
       + axis_max2 (wz (b3min b)) (wz (b3max b)) (wz p)).
End BoxSpec.
