(* sdf/matrix.go over the reals, part 2: Rotate3d / RotateX,Y,Z / Rotate2d / Rotate are proper
   rotations with the documented (right-handed) sense, the mirrors are reflections.
   Trigonometry enters only through sin^2 + cos^2 = 1. *)
From Coq Require Import Nsatz.
From Coq Require Import Reals Lra Lia List Bool ZArith.
From Sdfx Require Import Num.Ops Num.RInst Geo.Vec Geo.Box Geo.NormR Geo.Mat Geo.MatR.
Import ListNotations.
Open Scope R_scope.

(* ------------------------------------------------------------------ transposes, orthogonality *)
Definition tr_idx44 : list nat := [0;4;8;12;1;5;9;13;2;6;10;14;3;7;11;15]%nat.
Definition tr_idx33 : list nat := [0;3;6;1;4;7;2;5;8]%nat.
Definition tr_idx22 : list nat := [0;2;1;3]%nat.
Definition transpose44 (a : RM) : RM := map (fun i : nat => e a i) tr_idx44.
Definition transpose33 (a : RM) : RM := map (fun i : nat => e a i) tr_idx33.
Definition transpose22 (a : RM) : RM := map (fun i : nat => e a i) tr_idx22.
Definition orthogonal44 (a : RM) : Prop := mul44 a (transpose44 a) = id44 /\ mul44 (transpose44 a) a = id44.
Definition orthogonal33 (a : RM) : Prop := mul33 a (transpose33 a) = id33 /\ mul33 (transpose33 a) a = id33.
Definition orthogonal22 (a : RM) : Prop := mul22 a (transpose22 a) = id22 /\ mul22 (transpose22 a) a = id22.

(* ------------------------------------------------------------------ Rotate3d *)
(* the entries of Rotate3d for a unit axis (x,y,z), s = sin a, c = cos a *)
Definition rot_unit (x y z s c : R) : RM :=
  let m := 1 - c in
  [m*x*x + c; m*x*y - z*s; m*z*x + y*s; 0;
   m*x*y + z*s; m*y*y + c; m*y*z - x*s; 0;
   m*z*x - y*s; m*y*z + x*s; m*z*z + c; 0;
   0; 0; 0; 1].

Lemma rotate3d_is_rot_unit v a :
  @mk_rotate3d ROps v a =
  rot_unit (wx (@v3normalize ROps v)) (wy (@v3normalize ROps v)) (wz (@v3normalize ROps v)) (sin a) (cos a).
Proof.
  (* entry by entry over the reals (ring): the statement does not depend on how sdf/matrix.go associates or
     orders the products of an entry *)
  first [ reflexivity
        | unfold mk_rotate3d, rot_unit; cbv zeta;
          generalize (@v3normalize ROps v); intros [x y z]; cbn [wx wy wz];
          repeat (f_equal; try (cbn; ring)) ].
Qed.

Lemma normalize_unit (v : RV3) : len3 v <> 0 ->
  let n := @v3normalize ROps v in wx n * wx n + wy n * wy n + wz n * wz n = 1.
Proof.
  intros L. cbv zeta. unfold v3normalize, v3muls. cbn [wx wy wz]. rewrite v3len_eq.
  change (omul ROps) with Rmult. change (odiv ROps) with Rdiv. change (o1 ROps) with 1.
  pose proof (len3_sq v) as S. set (l := len3 v) in *.
  replace (wx v * (1 / l) * (wx v * (1 / l)) + wy v * (1 / l) * (wy v * (1 / l)) + wz v * (1 / l) * (wz v * (1 / l)))
    with ((wx v * wx v + wy v * wy v + wz v * wz v) / (l * l)) by (rfield; exact L).
  rewrite <- S. rfield. exact L.
Qed.
Lemma normalize_scales (v : RV3) : len3 v <> 0 ->
  v = @v3muls ROps (@v3normalize ROps v) (len3 v).
Proof.
  intros L. destruct v as [x y z]. unfold v3normalize, v3muls. cbn [wx wy wz]. rewrite v3len_eq.
  change (omul ROps) with Rmult. change (odiv ROps) with Rdiv. change (o1 ROps) with 1.
  set (l := len3 _) in *. f_equal; rfield; exact L.
Qed.

Lemma rot_unit_affine x y z s c : affine44 (rot_unit x y z s c).
Proof. unfold_mat. cbn. repeat split; reflexivity. Qed.

Lemma rot_unit_orthogonal x y z s c : x*x + y*y + z*z = 1 -> s*s + c*c = 1 ->
  orthogonal44 (rot_unit x y z s c).
Proof.
  intros U T. unfold orthogonal44, transpose44, tr_idx44, rot_unit. unfold_mat. unfold m44_mul, mk_identity3d.
  cbn [map List.nth]. cbn. split; repeat (f_equal; try nsatz).
Qed.
Lemma rot_unit_det x y z s c : x*x + y*y + z*z = 1 -> s*s + c*c = 1 -> det44 (rot_unit x y z s c) = 1.
Proof. intros U T. unfold rot_unit. unfold_mat. unfold m44_determinant. cbn [List.nth]. cbn. nsatz. Qed.

(* Rodrigues: R u = c u + s (n x u) + (1 - c) (n . u) n  -- a polynomial identity *)
Lemma rot_unit_rodrigues x y z s c (u : RV3) :
  mp44 (rot_unit x y z s c) u =
  let n := mkV3 x y z : RV3 in
  let nu := @v3cross ROps n u in
  let d := x * wx u + y * wy u + z * wz u in
  mkV3 (c * wx u + s * wx nu + (1 - c) * d * x)
       (c * wy u + s * wy nu + (1 - c) * d * y)
       (c * wz u + s * wz nu + (1 - c) * d * z).
Proof.
  destruct u as [a b g]. unfold rot_unit. unfold_mat. unfold m44_mulposition, v3cross. cbn [List.nth wx wy wz].
  cbn. f_equal; ring.
Qed.
(* the axis is fixed *)
Lemma rot_unit_fixes_axis x y z s c k : x*x + y*y + z*z = 1 ->
  mp44 (rot_unit x y z s c) (mkV3 (x * k) (y * k) (z * k)) = mkV3 (x * k) (y * k) (z * k).
Proof.
  intros U. unfold rot_unit. unfold_mat. unfold m44_mulposition. cbn [List.nth wx wy wz]. cbn.
  f_equal; nsatz.
Qed.
(* right-handed: a vector perpendicular to the axis turns towards (axis x u) *)
Lemma rot_unit_right_handed x y z s c (u : RV3) : x * wx u + y * wy u + z * wz u = 0 ->
  mp44 (rot_unit x y z s c) u =
  let nu := @v3cross ROps (mkV3 x y z) u in
  mkV3 (c * wx u + s * wx nu) (c * wy u + s * wy nu) (c * wz u + s * wz nu).
Proof.
  intros P. rewrite rot_unit_rodrigues. cbv zeta. rewrite P. f_equal; ring.
Qed.
(* lengths are preserved *)
Lemma rot_unit_isometry x y z s c (u : RV3) : x*x + y*y + z*z = 1 -> s*s + c*c = 1 ->
  len3 (mp44 (rot_unit x y z s c) u) = len3 u.
Proof.
  intros U T. destruct u as [a b g]. unfold len3, rot_unit. unfold_mat. unfold m44_mulposition.
  cbn [List.nth wx wy wz]. cbn. f_equal. nsatz.
Qed.

Lemma sin2_cos2' a : sin a * sin a + cos a * cos a = 1.
Proof. pose proof (sin2_cos2 a) as H. unfold Rsqr in H. exact H. Qed.

Theorem rotate3d_orthonormal (v : RV3) (a : R) : len3 v <> 0 ->
  let m := @mk_rotate3d ROps v a in
  let n := @v3normalize ROps v in
  affine44 m /\ orthogonal44 m /\ det44 m = 1 /\
  mp44 m v = v /\
  (forall u, len3 (mp44 m u) = len3 u) /\
  (forall u : RV3, wx n * wx u + wy n * wy u + wz n * wz u = 0 ->
     mp44 m u = let nu := @v3cross ROps n u in
                mkV3 (cos a * wx u + sin a * wx nu) (cos a * wy u + sin a * wy nu) (cos a * wz u + sin a * wz nu)).
Proof.
  intros L. cbv zeta. rewrite rotate3d_is_rot_unit.
  pose proof (normalize_unit v L) as U. cbv zeta in U. pose proof (sin2_cos2' a) as T.
  set (n := @v3normalize ROps v) in *.
  split; [apply rot_unit_affine|]. split; [apply rot_unit_orthogonal; assumption|].
  split; [apply rot_unit_det; assumption|]. split.
  - pose proof (rot_unit_fixes_axis (wx n) (wy n) (wz n) (sin a) (cos a) (len3 v) U) as F.
    change (mkV3 (wx n * len3 v) (wy n * len3 v) (wz n * len3 v)) with (@v3muls ROps n (len3 v)) in F.
    assert (E : @v3muls ROps n (len3 v) = v) by (symmetry; apply normalize_scales; exact L).
    rewrite E in F. exact F.
  - split; [intros u; apply rot_unit_isometry; assumption|].
    intros u P. rewrite (rot_unit_right_handed _ _ _ _ _ u P). destruct n; reflexivity.
Qed.

(* ---- RotateX / RotateY / RotateZ: explicit matrices and actions *)
Lemma len3_ex : len3 (mkV3 1 0 0 : RV3) = 1.
Proof. unfold len3; cbn [wx wy wz]. replace (1 * 1 + 0 * 0 + 0 * 0) with 1 by ring. apply sqrt_1. Qed.
Lemma len3_ey : len3 (mkV3 0 1 0 : RV3) = 1.
Proof. unfold len3; cbn [wx wy wz]. replace (0 * 0 + 1 * 1 + 0 * 0) with 1 by ring. apply sqrt_1. Qed.
Lemma len3_ez : len3 (mkV3 0 0 1 : RV3) = 1.
Proof. unfold len3; cbn [wx wy wz]. replace (0 * 0 + 0 * 0 + 1 * 1) with 1 by ring. apply sqrt_1. Qed.

Lemma normalize_ex : @v3normalize ROps (mkV3 (o1 ROps) (o0 ROps) (o0 ROps)) = mkV3 1 0 0.
Proof.
  unfold v3normalize. change (@v3len ROps (mkV3 (o1 ROps) (o0 ROps) (o0 ROps))) with (len3 (mkV3 1 0 0 : RV3)).
  rewrite len3_ex. unfold v3muls. cbn. f_equal; rfield.
Qed.
Lemma normalize_ey : @v3normalize ROps (mkV3 (o0 ROps) (o1 ROps) (o0 ROps)) = mkV3 0 1 0.
Proof.
  unfold v3normalize. change (@v3len ROps (mkV3 (o0 ROps) (o1 ROps) (o0 ROps))) with (len3 (mkV3 0 1 0 : RV3)).
  rewrite len3_ey. unfold v3muls. cbn. f_equal; rfield.
Qed.
Lemma normalize_ez : @v3normalize ROps (mkV3 (o0 ROps) (o0 ROps) (o1 ROps)) = mkV3 0 0 1.
Proof.
  unfold v3normalize. change (@v3len ROps (mkV3 (o0 ROps) (o0 ROps) (o1 ROps))) with (len3 (mkV3 0 0 1 : RV3)).
  rewrite len3_ez. unfold v3muls. cbn. f_equal; rfield.
Qed.
Lemma rotatex_action a (p : RV3) :
  mp44 (@mk_rotatex ROps a) p = mkV3 (wx p) (cos a * wy p - sin a * wz p) (sin a * wy p + cos a * wz p).
Proof.
  unfold mk_rotatex. rewrite rotate3d_is_rot_unit, normalize_ex.
  destruct p as [x y z]. unfold rot_unit. unfold_mat. unfold m44_mulposition. cbn [List.nth wx wy wz]. cbn.
  f_equal; rring.
Qed.
Lemma rotatey_action a (p : RV3) :
  mp44 (@mk_rotatey ROps a) p = mkV3 (cos a * wx p + sin a * wz p) (wy p) (- sin a * wx p + cos a * wz p).
Proof.
  unfold mk_rotatey. rewrite rotate3d_is_rot_unit, normalize_ey.
  destruct p as [x y z]. unfold rot_unit. unfold_mat. unfold m44_mulposition. cbn [List.nth wx wy wz]. cbn.
  f_equal; rfield.
Qed.
Lemma rotatez_action a (p : RV3) :
  mp44 (@mk_rotatez ROps a) p = mkV3 (cos a * wx p - sin a * wy p) (sin a * wx p + cos a * wy p) (wz p).
Proof.
  unfold mk_rotatez. rewrite rotate3d_is_rot_unit, normalize_ez.
  destruct p as [x y z]. unfold rot_unit. unfold_mat. unfold m44_mulposition. cbn [List.nth wx wy wz]. cbn.
  f_equal; rfield.
Qed.

Lemma ex_nonzero : len3 (mkV3 1 0 0 : RV3) <> 0. Proof. rewrite len3_ex; lra. Qed.
Lemma ey_nonzero : len3 (mkV3 0 1 0 : RV3) <> 0. Proof. rewrite len3_ey; lra. Qed.
Lemma ez_nonzero : len3 (mkV3 0 0 1 : RV3) <> 0. Proof. rewrite len3_ez; lra. Qed.

Theorem rotate_xyz_orthonormal a :
  (affine44 (@mk_rotatex ROps a) /\ orthogonal44 (@mk_rotatex ROps a) /\ det44 (@mk_rotatex ROps a) = 1) /\
  (affine44 (@mk_rotatey ROps a) /\ orthogonal44 (@mk_rotatey ROps a) /\ det44 (@mk_rotatey ROps a) = 1) /\
  (affine44 (@mk_rotatez ROps a) /\ orthogonal44 (@mk_rotatez ROps a) /\ det44 (@mk_rotatez ROps a) = 1).
Proof.
  pose proof (rotate3d_orthonormal (mkV3 1 0 0) a ex_nonzero) as X.
  pose proof (rotate3d_orthonormal (mkV3 0 1 0) a ey_nonzero) as Y.
  pose proof (rotate3d_orthonormal (mkV3 0 0 1) a ez_nonzero) as Z.
  cbv zeta in X, Y, Z. unfold mk_rotatex, mk_rotatey, mk_rotatez. tauto.
Qed.

(* ------------------------------------------------------------------ mirrors *)
Theorem mirrors3d :
  (orthogonal44 (@mk_mirrorxy ROps) /\ det44 (@mk_mirrorxy ROps) = -1 /\ affine44 (@mk_mirrorxy ROps) /\
   forall p : RV3, mp44 (@mk_mirrorxy ROps) p = mkV3 (wx p) (wy p) (- wz p)) /\
  (orthogonal44 (@mk_mirrorxz ROps) /\ det44 (@mk_mirrorxz ROps) = -1 /\ affine44 (@mk_mirrorxz ROps) /\
   forall p : RV3, mp44 (@mk_mirrorxz ROps) p = mkV3 (wx p) (- wy p) (wz p)) /\
  (orthogonal44 (@mk_mirroryz ROps) /\ det44 (@mk_mirroryz ROps) = -1 /\ affine44 (@mk_mirroryz ROps) /\
   forall p : RV3, mp44 (@mk_mirroryz ROps) p = mkV3 (- wx p) (wy p) (wz p)) /\
  (orthogonal44 (@mk_mirrorxeqy ROps) /\ det44 (@mk_mirrorxeqy ROps) = -1 /\ affine44 (@mk_mirrorxeqy ROps) /\
   forall p : RV3, mp44 (@mk_mirrorxeqy ROps) p = mkV3 (wy p) (wx p) (wz p)).
Proof.
  unfold orthogonal44, transpose44, tr_idx44. unfold_mat.
  unfold mk_mirrorxy, mk_mirrorxz, mk_mirroryz, mk_mirrorxeqy, m44_mul, m44_determinant, m44_mulposition, mk_identity3d.
  cbn [map List.nth]. cbn.
  repeat split; try (intros [x y z]; cbn [wx wy wz]); repeat (f_equal; try ring); try ring.
Qed.

Theorem mirrors2d :
  (orthogonal33 (@mk_mirrorx ROps) /\ det33 (@mk_mirrorx ROps) = -1 /\ affine33 (@mk_mirrorx ROps) /\
   forall p : RV2, mp33 (@mk_mirrorx ROps) p = mkV2 (vx p) (- vy p)) /\
  (orthogonal33 (@mk_mirrory ROps) /\ det33 (@mk_mirrory ROps) = -1 /\ affine33 (@mk_mirrory ROps) /\
   forall p : RV2, mp33 (@mk_mirrory ROps) p = mkV2 (- vx p) (vy p)).
Proof.
  unfold orthogonal33, transpose33, tr_idx33. unfold_mat.
  unfold mk_mirrorx, mk_mirrory, m33_mul, m33_determinant, m33_mulposition, mk_identity2d.
  cbn [map List.nth]. cbn.
  repeat split; try (intros [x y]; cbn [vx vy]); repeat (f_equal; try ring); try ring.
Qed.

(* ------------------------------------------------------------------ Rotate2d (M33) and Rotate (M22) *)
Theorem rotate2d_orthonormal a :
  let m := @mk_rotate2d ROps a in
  affine33 m /\ orthogonal33 m /\ det33 m = 1 /\
  forall p : RV2, mp33 m p = mkV2 (cos a * vx p - sin a * vy p) (sin a * vx p + cos a * vy p).
Proof.
  pose proof (sin2_cos2' a) as T. cbv zeta.
  unfold orthogonal33, transpose33, tr_idx33. unfold_mat.
  unfold mk_rotate2d, m33_mul, m33_determinant, m33_mulposition, mk_identity2d. cbv zeta.
  cbn [map List.nth]. cbn.
  repeat split; try (intros [x y]; cbn [vx vy]); repeat (f_equal; try nsatz); try nsatz.
Qed.
Theorem rotate_orthonormal a :
  let m := @mk_rotate ROps a in
  orthogonal22 m /\ det22 m = 1 /\
  forall p : RV2, mp22 m p = mkV2 (cos a * vx p - sin a * vy p) (sin a * vx p + cos a * vy p).
Proof.
  pose proof (sin2_cos2' a) as T. cbv zeta.
  unfold orthogonal22, transpose22, tr_idx22. unfold_mat.
  unfold mk_rotate, m22_mul, m22_determinant, m22_mulposition, mk_identity. cbv zeta.
  cbn [map List.nth]. cbn.
  repeat split; try (intros [x y]; cbn [vx vy]); repeat (f_equal; try nsatz); try nsatz.
Qed.

(* ------------------------------------------------------------------ translate / scale *)
Lemma translate3d_action (t p : RV3) :
  mp44 (@mk_translate3d ROps t) p = mkV3 (wx p + wx t) (wy p + wy t) (wz p + wz t).
Proof. destruct p, t. unfold_mat. unfold m44_mulposition, mk_translate3d. cbn. f_equal; ring. Qed.
Lemma translate2d_action (t p : RV2) :
  mp33 (@mk_translate2d ROps t) p = mkV2 (vx p + vx t) (vy p + vy t).
Proof. destruct p, t. unfold_mat. unfold m33_mulposition, mk_translate2d. cbn. f_equal; ring. Qed.
Lemma scale3d_action (k p : RV3) :
  mp44 (@mk_scale3d ROps k) p = mkV3 (wx k * wx p) (wy k * wy p) (wz k * wz p).
Proof. destruct p, k. unfold_mat. unfold m44_mulposition, mk_scale3d. cbn. f_equal; ring. Qed.
Lemma scale2d_action (k p : RV2) :
  mp33 (@mk_scale2d ROps k) p = mkV2 (vx k * vx p) (vy k * vy p).
Proof. destruct p, k. unfold_mat. unfold m33_mulposition, mk_scale2d. cbn. f_equal; ring. Qed.
Lemma translate3d_det t : det44 (@mk_translate3d ROps t) = 1 /\ affine44 (@mk_translate3d ROps t).
Proof. unfold_mat. unfold m44_determinant, mk_translate3d. cbn. repeat split; ring. Qed.
Lemma translate2d_det t : det33 (@mk_translate2d ROps t) = 1 /\ affine33 (@mk_translate2d ROps t).
Proof. unfold_mat. unfold m33_determinant, mk_translate2d. cbn. repeat split; ring. Qed.
Lemma scale3d_det k : det44 (@mk_scale3d ROps k) = wx k * wy k * wz k /\ affine44 (@mk_scale3d ROps k).
Proof. unfold_mat. unfold m44_determinant, mk_scale3d. cbn. repeat split; ring. Qed.
