(* Correspondence for the V1 lock step: the FOps instance of Geo/DCVertex.v (bound_vertex,
   mass point = sum * (1/n)) against dcBoundVertexPosition of the implementation, bit for bit. *)
From Coq Require Import List ZArith NArith Floats Bool.
From Sdfx Require Import Num.Ops.
From Sdfx Require Import Num.FInst.
From Sdfx Require Import Geo.Vec.
From Sdfx Require Import Geo.DCVertex.
Import ListNotations.

Definition f3 := (float * float * float)%type.
Definition fv (p : f3) : V3 FOps := let '(x, y, z) := p in mkV3 x y z.
(* id, cell min, cell max, QEF position, mass point sum, number of points, result of the implementation *)
Definition case_bv := (N * f3 * f3 * f3 * f3 * Z * f3)%type.
Definition ok_bv (c : case_bv) : bool :=
  let '(id, mn, mx, q, sum, n, g) := c in
  let r := @bound_vertex FOps (fv mn) (fv mx) (fv q) (@divscalar FOps (fv sum) (ofZ FOps n)) in
  let '(gx, gy, gz) := g in
  fsame (wx r) gx && fsame (wy r) gy && fsame (wz r) gz.
Definition mismatches_bv (cs : list case_bv) : list N :=
  map (fun c : case_bv => let '(id, _, _, _, _, _, _) := c in id) (filter (fun c => negb (ok_bv c)) cs).
