(* sdf/matrix.go: the straight-line functions come from the translator
   (Generated/MatrixExpr.v); MulBox and the vertex-set helpers are modelled here. *)
From Coq Require Import ZArith List Bool.
From Sdfx Require Import Num.Ops Geo.Vec Geo.Box.
From Sdfx Require Export Generated.MatrixExpr.
Import OpsNotations ListNotations.
Local Open Scope ops_scope.

Section Mat.
  Context {O : Ops}.
  Notation T := (T O).
  Definition M22 := list T.
  Definition M33 := list T.
  Definition M44 := list T.
  Definition mi (a : list T) (i : nat) : T := nth i a (o0 O).

  (* M33.MulBox *)
  Definition m33_mulbox (a : M33) (box : Box2 O) : Box2 O :=
    let r := mkV2 (mi a 0) (mi a 3) in
    let u := mkV2 (mi a 1) (mi a 4) in
    let t := mkV2 (mi a 2) (mi a 5) in
    let xa := v2muls r (vx (b2min box)) in
    let xb := v2muls r (vx (b2max box)) in
    let ya := v2muls u (vy (b2min box)) in
    let yb := v2muls u (vy (b2max box)) in
    let '(xa, xb) := (v2min xa xb, v2max xa xb) in
    let '(ya, yb) := (v2min ya yb, v2max ya yb) in
    mkBox2 (v2add (v2add xa ya) t) (v2add (v2add xb yb) t).

  (* M44.MulBox *)
  Definition m44_mulbox (a : M44) (box : Box3 O) : Box3 O :=
    let r := mkV3 (mi a 0) (mi a 4) (mi a 8) in
    let u := mkV3 (mi a 1) (mi a 5) (mi a 9) in
    let b := mkV3 (mi a 2) (mi a 6) (mi a 10) in
    let t := mkV3 (mi a 3) (mi a 7) (mi a 11) in
    let xa := v3muls r (wx (b3min box)) in
    let xb := v3muls r (wx (b3max box)) in
    let ya := v3muls u (wy (b3min box)) in
    let yb := v3muls u (wy (b3max box)) in
    let za := v3muls b (wz (b3min box)) in
    let zb := v3muls b (wz (b3max box)) in
    let '(xa, xb) := (v3min xa xb, v3max xa xb) in
    let '(ya, yb) := (v3min ya yb, v3max ya yb) in
    let '(za, zb) := (v3min za zb, v3max za zb) in
    mkBox3 (v3add (v3add (v3add xa ya) za) t) (v3add (v3add (v3add xb yb) zb) t).

  (* VecSet.Min / VecSet.Max: vmin := a[0]; for all v: vmin = vmin.Min(v) *)
  Definition v2set_min (l : list (V2 O)) : V2 O := fold_left v2min l (hd v2zero l).
  Definition v2set_max (l : list (V2 O)) : V2 O := fold_left v2max l (hd v2zero l).
  Definition v3set_min (l : list (V3 O)) : V3 O := fold_left v3min l (hd v3zero l).
  Definition v3set_max (l : list (V3 O)) : V3 O := fold_left v3max l (hd v3zero l).
End Mat.
