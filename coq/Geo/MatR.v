(* sdf/matrix.go over the reals: the cofactor inverses are inverses, the rotation constructors
   are proper rotations with the documented handedness, the mirrors are reflections.
   All statements are about the definitions generated from the Go source (Generated/MatrixExpr.v).
   A matrix is the row-major list of its entries; entries are read with `nth i a 0`, so no
   length side conditions are needed. *)
From Coq Require Import Nsatz.
From Coq Require Import Reals Lra Lia List Bool ZArith.
From Sdfx Require Import Num.Ops Num.RInst Geo.Vec Geo.Box Geo.NormR Geo.Mat.
Import ListNotations.
Open Scope R_scope.

Notation RM := (list R).
Definition e (a : RM) (i : nat) : R := List.nth i a 0.

(* last row (0 0 0 1) / (0 0 1): the matrix is an affine map of positions *)
Definition affine44 (a : RM) : Prop := e a 12 = 0 /\ e a 13 = 0 /\ e a 14 = 0 /\ e a 15 = 1.
Definition affine33 (a : RM) : Prop := e a 6 = 0 /\ e a 7 = 0 /\ e a 8 = 1.

Definition mp44 (a : RM) (p : RV3) : RV3 := @m44_mulposition ROps a p.
Definition mp33 (a : RM) (p : RV2) : RV2 := @m33_mulposition ROps a p.
Definition mp22 (a : RM) (p : RV2) : RV2 := @m22_mulposition ROps a p.
Definition mul44 (a b : RM) : RM := @m44_mul ROps a b.
Definition mul33 (a b : RM) : RM := @m33_mul ROps a b.
Definition mul22 (a b : RM) : RM := @m22_mul ROps a b.
Definition inv44 (a : RM) : RM := @m44_inverse ROps a.
Definition inv33 (a : RM) : RM := @m33_inverse ROps a.
Definition inv22 (a : RM) : RM := @m22_inverse ROps a.
Definition det44 (a : RM) : R := @m44_determinant ROps a.
Definition det33 (a : RM) : R := @m33_determinant ROps a.
Definition det22 (a : RM) : R := @m22_determinant ROps a.
Definition id44 : RM := @mk_identity3d ROps.
Definition id33 : RM := @mk_identity2d ROps.
Definition id22 : RM := @mk_identity ROps.

Ltac unfold_mat :=
  unfold mp44, mp33, mp22, mul44, mul33, mul22, inv44, inv33, inv22, det44, det33, det22, id44, id33, id22,
         affine44, affine33, e in *.

(* Every reciprocal in the goal is the reciprocal of the determinant D speaks about - the same polynomial,
   however the source writes it (`d := 1 / a.Determinant()` and `x * d`, `x / det`, the determinant
   inlined or associated differently): it becomes ONE variable d with  det * d = 1.  The proofs below
   therefore depend on what sdf/matrix.go computes over the reals, not on how it is written. *)
Ltac gen_inv D :=
  unfold Rdiv in *;
  match type of D with ?det <> 0 =>
    repeat match goal with |- context [Rinv ?x] =>
             lazymatch x with det => fail | _ => replace (Rinv x) with (Rinv det) by (f_equal; ring) end
           end;
    let Hd := fresh "Hd" in
    assert (Hd : det * / det = 1) by (apply Rinv_r; exact D);
    generalize dependent (/ det); clear D; intros d Hd
  end.

(* an entry of  a * inverse(a): either the cofactor expansion of the determinant times 1/det, or 0 *)
Ltac inv_entry Hd :=
  lazymatch goal with
  | |- _ = 1 => (etransitivity; [|exact Hd]); ring
  | |- _ = 0 => ring
  end.

(* ------------------------------------------------------------------ inverses *)
Lemma inverse_correct_22 a : det22 a <> 0 -> mul22 a (inv22 a) = id22 /\ mul22 (inv22 a) a = id22.
Proof.
  intros D. unfold_mat. unfold m22_inverse, m22_mul, mk_identity, m22_determinant in *. cbv zeta. cbn [nth] in *. cbn in D |- *.
  gen_inv D. split; repeat (f_equal; try (inv_entry Hd)).
Qed.

Lemma inverse_correct_33 a : det33 a <> 0 -> mul33 a (inv33 a) = id33 /\ mul33 (inv33 a) a = id33.
Proof.
  intros D. unfold_mat. unfold m33_inverse, m33_mul, mk_identity2d, m33_determinant in *. cbv zeta. cbn [nth] in *. cbn in D |- *.
  gen_inv D. split; repeat (f_equal; try (inv_entry Hd)).
Qed.

Lemma inverse_correct_44 a : det44 a <> 0 -> mul44 a (inv44 a) = id44 /\ mul44 (inv44 a) a = id44.
Proof.
  intros D. unfold_mat. unfold m44_inverse, m44_mul, mk_identity3d, m44_determinant in *. cbv zeta. cbn [nth] in *. cbn in D |- *.
  gen_inv D. split; repeat (f_equal; try (inv_entry Hd)).
Qed.

(* ------------------------------------------------------------------ products act by composition *)
Lemma mp44_mul a b p : affine44 b -> mp44 (mul44 a b) p = mp44 a (mp44 b p).
Proof.
  intros (H1 & H2 & H3 & H4). unfold_mat. unfold m44_mulposition, m44_mul. cbn [nth wx wy wz].
  cbn. f_equal; (rewrite ?H1, ?H2, ?H3, ?H4; ring).
Qed.
Lemma mp33_mul a b p : affine33 b -> mp33 (mul33 a b) p = mp33 a (mp33 b p).
Proof.
  intros (H1 & H2 & H3). unfold_mat. unfold m33_mulposition, m33_mul. cbn [nth vx vy].
  cbn. f_equal; (rewrite ?H1, ?H2, ?H3; ring).
Qed.
Lemma mp22_mul a b p : mp22 (mul22 a b) p = mp22 a (mp22 b p).
Proof. unfold_mat. unfold m22_mulposition, m22_mul. cbn [nth vx vy]. cbn. f_equal; ring. Qed.

Lemma mp44_id p : mp44 id44 p = p.
Proof. destruct p. unfold_mat. unfold m44_mulposition, mk_identity3d. cbn. f_equal; ring. Qed.
Lemma mp33_id p : mp33 id33 p = p.
Proof. destruct p. unfold_mat. unfold m33_mulposition, mk_identity2d. cbn. f_equal; ring. Qed.
Lemma mp22_id p : mp22 id22 p = p.
Proof. destruct p. unfold_mat. unfold m22_mulposition, mk_identity. cbn. f_equal; ring. Qed.

(* the inverse undoes the map on positions (what TransformSDF evaluates) *)
Lemma inverse_position_44 a p : det44 a <> 0 -> affine44 a -> mp44 (inv44 a) (mp44 a p) = p.
Proof.
  intros D A. rewrite <- mp44_mul by exact A. destruct (inverse_correct_44 a D) as [_ ->]. apply mp44_id.
Qed.
Lemma inverse_position_33 a p : det33 a <> 0 -> affine33 a -> mp33 (inv33 a) (mp33 a p) = p.
Proof.
  intros D A. rewrite <- mp33_mul by exact A. destruct (inverse_correct_33 a D) as [_ ->]. apply mp33_id.
Qed.
Lemma inverse_position_22 a p : det22 a <> 0 -> mp22 (inv22 a) (mp22 a p) = p.
Proof.
  intros D. rewrite <- mp22_mul. destruct (inverse_correct_22 a D) as [_ ->]. apply mp22_id.
Qed.

(* the inverse of an affine matrix is affine, so the other composition is the identity too *)
Lemma inverse_affine_44 a : det44 a <> 0 -> affine44 a -> affine44 (inv44 a).
Proof.
  intros D (H1 & H2 & H3 & H4). unfold_mat. unfold m44_inverse, m44_determinant in *. cbv zeta. cbn [nth] in *. cbn in D |- *.
  rewrite H1, H2, H3, H4 in *. gen_inv D. repeat split; try ring.
  etransitivity; [|exact Hd]. ring.
Qed.
Lemma inverse_affine_33 a : det33 a <> 0 -> affine33 a -> affine33 (inv33 a).
Proof.
  intros D (H1 & H2 & H3). unfold_mat. unfold m33_inverse, m33_determinant in *. cbv zeta. cbn [nth] in *. cbn in D |- *.
  rewrite H1, H2, H3 in *. gen_inv D. repeat split; try ring.
  etransitivity; [|exact Hd]. ring.
Qed.
Lemma position_inverse_44 a p : det44 a <> 0 -> affine44 a -> mp44 a (mp44 (inv44 a) p) = p.
Proof.
  intros D A. rewrite <- mp44_mul by (apply inverse_affine_44; assumption).
  destruct (inverse_correct_44 a D) as [-> _]. apply mp44_id.
Qed.
Lemma position_inverse_33 a p : det33 a <> 0 -> affine33 a -> mp33 a (mp33 (inv33 a) p) = p.
Proof.
  intros D A. rewrite <- mp33_mul by (apply inverse_affine_33; assumption).
  destruct (inverse_correct_33 a D) as [-> _]. apply mp33_id.
Qed.

(* ------------------------------------------------------------------ products: associativity, affine closure *)
Lemma mul44_assoc a b c : mul44 (mul44 a b) c = mul44 a (mul44 b c).
Proof. unfold_mat. unfold m44_mul. cbn [nth]. cbn. repeat (f_equal; try ring). Qed.
Lemma mul33_assoc a b c : mul33 (mul33 a b) c = mul33 a (mul33 b c).
Proof. unfold_mat. unfold m33_mul. cbn [nth]. cbn. repeat (f_equal; try ring). Qed.
Lemma mul44_affine a b : affine44 a -> affine44 b -> affine44 (mul44 a b).
Proof.
  intros (A1 & A2 & A3 & A4) (B1 & B2 & B3 & B4). unfold_mat. unfold m44_mul. cbn [nth]. cbn.
  rewrite A1, A2, A3, A4, B1, B2, B3, B4. repeat split; ring.
Qed.
Lemma mul33_affine a b : affine33 a -> affine33 b -> affine33 (mul33 a b).
Proof.
  intros (A1 & A2 & A3) (B1 & B2 & B3). unfold_mat. unfold m33_mul. cbn [nth]. cbn.
  rewrite A1, A2, A3, B1, B2, B3. repeat split; ring.
Qed.
Lemma id44_affine : affine44 id44.
Proof. unfold_mat. cbn. repeat split; reflexivity. Qed.
Lemma id33_affine : affine33 id33.
Proof. unfold_mat. cbn. repeat split; reflexivity. Qed.
Lemma mul44_id_l a : mul44 id44 (mul44 a id44) = mul44 a id44.
Proof. unfold_mat. unfold m44_mul, mk_identity3d. cbn [nth]. cbn. repeat (f_equal; try ring). Qed.

(* powers as the rotate-union loop builds them: rot_0 = identity, rot_(i+1) = rot_i * s *)
Fixpoint rpow44 (s : RM) (i : nat) : RM := match i with O => id44 | S j => mul44 (rpow44 s j) s end.
Fixpoint rpow33 (s : RM) (i : nat) : RM := match i with O => id33 | S j => mul33 (rpow33 s j) s end.

Lemma rpow44_affine s i : affine44 s -> affine44 (rpow44 s i).
Proof. intros A. induction i; cbn [rpow44]; [apply id44_affine | apply mul44_affine; assumption]. Qed.
Lemma rpow33_affine s i : affine33 s -> affine33 (rpow33 s i).
Proof. intros A. induction i; cbn [rpow33]; [apply id33_affine | apply mul33_affine; assumption]. Qed.

(* s^(i+1) applied to q is s^i applied to (s q) and also s applied to (s^i q) *)
Lemma rpow44_succ_r s i q : affine44 s -> mp44 (rpow44 s (S i)) q = mp44 (rpow44 s i) (mp44 s q).
Proof. intros A. cbn [rpow44]. apply mp44_mul, A. Qed.
Lemma rpow44_succ_l s i q : affine44 s -> mp44 (rpow44 s (S i)) q = mp44 s (mp44 (rpow44 s i) q).
Proof.
  intros A. revert q. induction i; intros q.
  - cbn [rpow44]. rewrite mp44_mul by exact A. rewrite !mp44_id. reflexivity.
  - rewrite rpow44_succ_r by exact A. rewrite IHi. rewrite <- rpow44_succ_r by exact A. reflexivity.
Qed.
Lemma rpow33_succ_r s i q : affine33 s -> mp33 (rpow33 s (S i)) q = mp33 (rpow33 s i) (mp33 s q).
Proof. intros A. cbn [rpow33]. apply mp33_mul, A. Qed.
Lemma rpow33_succ_l s i q : affine33 s -> mp33 (rpow33 s (S i)) q = mp33 s (mp33 (rpow33 s i) q).
Proof.
  intros A. revert q. induction i; intros q.
  - cbn [rpow33]. rewrite mp33_mul by exact A. rewrite !mp33_id. reflexivity.
  - rewrite rpow33_succ_r by exact A. rewrite IHi. rewrite <- rpow33_succ_r by exact A. reflexivity.
Qed.

(* the i-th power of the inverse undoes the i-th power: copy i of a rotate-union is the
   operand moved by step^i *)
Lemma rpow44_inverse s i q : det44 s <> 0 -> affine44 s ->
  mp44 (rpow44 (inv44 s) i) (mp44 (rpow44 s i) q) = q.
Proof.
  intros D A. revert q. induction i; intros q.
  - cbn [rpow44]. rewrite !mp44_id. reflexivity.
  - rewrite rpow44_succ_r by (apply inverse_affine_44; assumption).
    rewrite rpow44_succ_l by exact A. rewrite inverse_position_44 by assumption. apply IHi.
Qed.
Lemma rpow33_inverse s i q : det33 s <> 0 -> affine33 s ->
  mp33 (rpow33 (inv33 s) i) (mp33 (rpow33 s i) q) = q.
Proof.
  intros D A. revert q. induction i; intros q.
  - cbn [rpow33]. rewrite !mp33_id. reflexivity.
  - rewrite rpow33_succ_r by (apply inverse_affine_33; assumption).
    rewrite rpow33_succ_l by exact A. rewrite inverse_position_33 by assumption. apply IHi.
Qed.

