(* Vertex placement of the dual-contouring renderers, as far as the property needs it:
   the containment step that follows the QEF / least-squares solve (the solve itself is an oracle).

     bound_vertex   dcBoundVertexPosition (dc3v1.go): outside the leaf -> mass point
     mass_point     dcQefSolver.MassPoint: mean of the edge crossing points
     v2_final       the "too far away" test and clamp at the end of placeVertex (dc3v2.go)

   Over the reals: the V1 vertex (lockVertices on) and the V2 vertex (0 <= FarAway <= 1/2) lie in
   their cell; a cell with a sign change of a field that is continuous along the segment joining
   two corners of different sign contains a zero of the field (intermediate value theorem), so the
   vertex is within one cell diagonal of the surface. *)
From Coq Require Import Reals List Lra Lia ZArith Bool.
From Sdfx Require Import Num.Ops.
From Sdfx Require Import Num.RInst.
From Sdfx Require Import Geo.Vec.
From Sdfx Require Import Geo.Box.
From Sdfx Require Import Geo.BoxR.
Import OpsNotations ListNotations.
Local Open Scope ops_scope.

Section Model.
  Context {O : Ops}.
  Notation T := (T O).

  (* if qefPosition.X < min.X || ... || qefPosition.Z > max.Z { qefPosition = qefSolver.MassPoint() } *)
  Definition bound_vertex (mn mx q mass : V3 O) : V3 O :=
    if (wx q <? wx mn) || (wy q <? wy mn) || (wz q <? wz mn) || (wx q >? wx mx) || (wy q >? wy mx) || (wz q >? wz mx)
    then mass else q.
  (* massPointSum accumulates the crossing points; MassPoint divides by their number *)
  Definition point_sum (ps : list (V3 O)) : V3 O := fold_left v3add ps v3zero.
  (* vec DivScalar(b) is MulScalar(1 / b) *)
  Definition divscalar (a : V3 O) (b : T) : V3 O := v3muls a (o1 O / b).
  Definition mass_point (ps : list (V3 O)) : V3 O := divscalar (point_sum ps) (ofZ O (Z.of_nat (length ps))).

  (* end of placeVertex: vertex further than FarAway cell sizes from the cell centre on some axis -> Clamp *)
  Definition v2_final (start size v : V3 O) (far : T) : V3 O :=
    let c := v3add start (divscalar size two) in
    if (oabs O (wx v - wx c) >? far * wx size) || (oabs O (wy v - wy c) >? far * wy size) || (oabs O (wz v - wz c) >? far * wz size)
    then v3clamp v start (v3add start size) else v.
End Model.

Open Scope R_scope.

Definition cellbox (mn mx : V3 ROps) : Box3 ROps := mkBox3 mn mx.

Lemma clamp_in (x a b : R) : a <= b -> a <= @clamp ROps x a b <= b.
Proof. intros H. unfold clamp. cbn. rcmp; lra. Qed.

(* ---- V2: the final vertex lies in its cell for every candidate position *)
Theorem v2_vertex_in_cell (start size v : V3 ROps) (far : R) :
  0 <= far <= 1 / 2 -> 0 <= wx size -> 0 <= wy size -> 0 <= wz size ->
  in_box3 (cellbox start (v3add start size)) (v2_final start size v far).
Proof.
  intros Hf Hx Hy Hz. destruct start as [sx sy sz], size as [dx dy dz], v as [vx vy vz].
  unfold v2_final, in_box3, cellbox, two, divscalar. cbn [wx wy wz b3min b3max v3add v3muls] in *.
  change (oadd ROps) with Rplus. change (osub ROps) with Rminus. change (omul ROps) with Rmult.
  change (odiv ROps) with Rdiv. change (oabs ROps) with Rabs. change (oltb ROps) with Rltb. change (o1 ROps) with 1.
  match goal with |- context [if ?c then _ else _] => destruct c eqn:E end.
  - cbn [v3clamp v3add wx wy wz]. change (oadd ROps) with Rplus.
    pose proof (clamp_in vx sx (sx + dx) ltac:(lra)). pose proof (clamp_in vy sy (sy + dy) ltac:(lra)).
    pose proof (clamp_in vz sz (sz + dz) ltac:(lra)). lra.
  - apply orb_false_iff in E as [E Ez]. apply orb_false_iff in E as [Ex Ey].
    apply Rltb_false in Ex, Ey, Ez. cbn [wx wy wz].
    assert (Ax : far * dx <= dx / 2) by nra. assert (Ay : far * dy <= dy / 2) by nra. assert (Az : far * dz <= dz / 2) by nra.
    revert Ex Ey Ez. unfold Rabs. repeat destruct (Rcase_abs _); intros; lra.
Qed.

(* ---- V1: mean of points of a box lies in the box *)
Lemma point_sum_bounds (ps : list (V3 ROps)) (mn mx acc : V3 ROps) (k : nat) :
  Forall (in_box3 (cellbox mn mx)) ps ->
  INR k * wx mn <= wx acc <= INR k * wx mx -> INR k * wy mn <= wy acc <= INR k * wy mx -> INR k * wz mn <= wz acc <= INR k * wz mx ->
  let r := fold_left (@v3add ROps) ps acc in let m := INR (k + length ps) in
  m * wx mn <= wx r <= m * wx mx /\ m * wy mn <= wy r <= m * wy mx /\ m * wz mn <= wz r <= m * wz mx.
Proof.
  revert acc k. induction ps as [|p ps IH]; intros acc k Hps Hx Hy Hz; cbn [fold_left length].
  - rewrite Nat.add_0_r. auto.
  - inversion Hps as [|? ? Hp Hps']; subst. destruct Hp as (Px & Py & Pz). cbn [cellbox b3min b3max] in Px, Py, Pz.
    replace (k + S (length ps))%nat with (S k + length ps)%nat by lia.
    apply IH; [exact Hps' | | |]; rewrite S_INR; cbn [v3add wx wy wz]; change (oadd ROps) with Rplus; lra.
Qed.

Lemma mass_point_in_box (ps : list (V3 ROps)) (mn mx : V3 ROps) :
  ps <> [] -> Forall (in_box3 (cellbox mn mx)) ps -> in_box3 (cellbox mn mx) (mass_point ps).
Proof.
  intros Hne Hps. unfold mass_point, point_sum.
  pose proof (point_sum_bounds ps mn mx (@v3zero ROps) 0 Hps) as B. cbn [INR v3zero wx wy wz plus] in B.
  change (o0 ROps) with 0 in B. specialize (B ltac:(lra) ltac:(lra) ltac:(lra)). cbv zeta in B.
  set (r := fold_left (@v3add ROps) ps (mkV3 0 0 0)) in *.
  assert (Hn : 0 < INR (length ps)) by (apply lt_0_INR; destruct ps; [contradiction | cbn; lia]).
  cbn [ofZ ROps]. rewrite <- INR_IZR_INZ.
  set (m := INR (length ps)) in *. unfold in_box3, divscalar. cbn [cellbox b3min b3max v3muls wx wy wz].
  change (odiv ROps) with Rdiv. change (omul ROps) with Rmult. change (o1 ROps) with 1. unfold Rdiv. rewrite !Rmult_1_l.
  assert (Hk : 0 < / m) by now apply Rinv_0_lt_compat.
  assert (Hmk : m * / m = 1) by (apply Rinv_r; lra).
  destruct B as ((B1 & B2) & (B3 & B4) & (B5 & B6)).
  repeat split.
  - replace (wx mn) with ((m * wx mn) * / m) by (rewrite Rmult_comm, <- Rmult_assoc, (Rmult_comm (/ m)), Hmk; ring). now apply Rmult_le_compat_r; [lra|].
  - replace (wx mx) with ((m * wx mx) * / m) by (rewrite Rmult_comm, <- Rmult_assoc, (Rmult_comm (/ m)), Hmk; ring). now apply Rmult_le_compat_r; [lra|].
  - replace (wy mn) with ((m * wy mn) * / m) by (rewrite Rmult_comm, <- Rmult_assoc, (Rmult_comm (/ m)), Hmk; ring). now apply Rmult_le_compat_r; [lra|].
  - replace (wy mx) with ((m * wy mx) * / m) by (rewrite Rmult_comm, <- Rmult_assoc, (Rmult_comm (/ m)), Hmk; ring). now apply Rmult_le_compat_r; [lra|].
  - replace (wz mn) with ((m * wz mn) * / m) by (rewrite Rmult_comm, <- Rmult_assoc, (Rmult_comm (/ m)), Hmk; ring). now apply Rmult_le_compat_r; [lra|].
  - replace (wz mx) with ((m * wz mx) * / m) by (rewrite Rmult_comm, <- Rmult_assoc, (Rmult_comm (/ m)), Hmk; ring). now apply Rmult_le_compat_r; [lra|].
Qed.

(* the vertex of a leaf with lockVertices on: whatever the QEF solve returned *)
Theorem v1_vertex_in_cell (mn mx q : V3 ROps) (ps : list (V3 ROps)) :
  ps <> [] -> Forall (in_box3 (cellbox mn mx)) ps ->
  in_box3 (cellbox mn mx) (bound_vertex mn mx q (mass_point ps)).
Proof.
  intros Hne Hps. unfold bound_vertex.
  change (oltb ROps) with Rltb.
  destruct (Rltb (wx q) (wx mn) || Rltb (wy q) (wy mn) || Rltb (wz q) (wz mn) || Rltb (wx mx) (wx q) || Rltb (wy mx) (wy q) || Rltb (wz mx) (wz q)) eqn:E.
  - now apply mass_point_in_box.
  - repeat (apply orb_false_iff in E as [E ?]). repeat match goal with H : Rltb _ _ = false |- _ => apply Rltb_false in H end.
    unfold in_box3. cbn [cellbox b3min b3max]. lra.
Qed.

(* ---- a crossing point on a cell edge lies in the cell (the points the QEF is fed with) *)
Definition lerp3 (a b : V3 ROps) (t : R) : V3 ROps :=
  mkV3 (wx a + t * (wx b - wx a)) (wy a + t * (wy b - wy a)) (wz a + t * (wz b - wz a)).

Lemma lerp_in_box (mn mx a b : V3 ROps) t :
  in_box3 (cellbox mn mx) a -> in_box3 (cellbox mn mx) b -> 0 <= t <= 1 -> in_box3 (cellbox mn mx) (lerp3 a b t).
Proof.
  unfold in_box3, lerp3. cbn [cellbox b3min b3max wx wy wz]. intros (A1 & A2 & A3) (B1 & B2 & B3) Ht.
  repeat split; nra.
Qed.

(* ---- within one cell diagonal of a zero *)
Definition diag2 (mn mx : V3 ROps) : R :=
  (wx mx - wx mn) * (wx mx - wx mn) + (wy mx - wy mn) * (wy mx - wy mn) + (wz mx - wz mn) * (wz mx - wz mn).

Lemma box_points_within_diagonal (mn mx v z : V3 ROps) :
  in_box3 (cellbox mn mx) v -> in_box3 (cellbox mn mx) z -> dist2_3 v z <= diag2 mn mx.
Proof.
  unfold in_box3, dist2_3, diag2. cbn [cellbox b3min b3max]. intros (A1 & A2 & A3) (B1 & B2 & B3).
  assert (forall l h p q, l <= p <= h -> l <= q <= h -> (p - q) * (p - q) <= (h - l) * (h - l)) as Hs by (intros; nra).
  pose proof (Hs _ _ _ _ A1 B1). pose proof (Hs _ _ _ _ A2 B2). pose proof (Hs _ _ _ _ A3 B3). lra.
Qed.

(* a cell two of whose corners a, b have signs f a < 0 <= f b contains a zero of f on the segment
   a-b when f is continuous along it; any vertex placed in the cell is within the diagonal of it *)
Theorem vertex_near_zero (f : V3 ROps -> R) (mn mx a b v : V3 ROps) :
  in_box3 (cellbox mn mx) a -> in_box3 (cellbox mn mx) b -> in_box3 (cellbox mn mx) v ->
  continuity (fun t => f (lerp3 a b t)) -> f a < 0 -> 0 <= f b ->
  exists z, in_box3 (cellbox mn mx) z /\ f z = 0 /\ dist2_3 v z <= diag2 mn mx
            /\ sqrt (dist2_3 v z) <= sqrt (diag2 mn mx).
Proof.
  intros Ha Hb Hv Hc Hfa Hfb.
  assert (E0 : lerp3 a b 0 = a) by (destruct a; unfold lerp3; cbn; f_equal; ring).
  assert (E1 : lerp3 a b 1 = b) by (destruct a, b; unfold lerp3; cbn; f_equal; ring).
  destruct (IVT_cor (fun t => f (lerp3 a b t)) 0 1 Hc ltac:(lra)) as (t & Ht & Hz).
  { rewrite E0, E1. nra. }
  exists (lerp3 a b t). assert (Hin : in_box3 (cellbox mn mx) (lerp3 a b t)) by now apply lerp_in_box.
  pose proof (box_points_within_diagonal mn mx v _ Hv Hin) as D.
  repeat split; try apply Hin; [exact Hz | exact D | now apply sqrt_le_1_alt].
Qed.
