(* Real-number lemmas on nested Rmin/Rmax and the vertex loop of MinMaxDist2. *)
From Coq Require Import Reals Lra Lia List Bool ZArith.
From Sdfx Require Import Num.Ops Num.RInst Geo.Vec Geo.Box.
Import ListNotations.
Open Scope R_scope.

(* ------------------------------------------------------------ Rmin/Rmax facts *)
Lemma Rmin_case_eq a b : (Rmin a b = a /\ a <= b) \/ (Rmin a b = b /\ b <= a).
Proof. unfold Rmin; destruct (Rle_dec a b); [left|right]; split; lra. Qed.
Lemma Rmax_case_eq a b : (Rmax a b = a /\ b <= a) \/ (Rmax a b = b /\ a <= b).
Proof. unfold Rmax; destruct (Rle_dec a b); [right|left]; split; lra. Qed.

(* case-split nested Rmin/Rmax innermost first, so that every comparison is between if-free terms *)
Ltac split_minmax :=
  unfold Rmin, Rmax;
  repeat match goal with
  | |- context [Rle_dec ?a ?b] =>
      lazymatch a with
      | context [Rle_dec _ _] => fail
      | _ => lazymatch b with context [Rle_dec _ _] => fail | _ => destruct (Rle_dec a b) end
      end
  end.

Lemma sq_abs_min a b : let d := Rmin (Rabs b) (Rabs a) in d * d = Rmin (a * a) (b * b).
Proof.
  cbv zeta. unfold Rmin, Rabs.
  destruct (Rcase_abs b), (Rcase_abs a); destruct (Rle_dec _ _); destruct (Rle_dec _ _); nra.
Qed.

(* one axis: a = lo - p <= b = hi - p *)
Definition m2 (a b : R) := Rmin (a * a) (b * b).
Definition M2 (a b : R) := Rmax (a * a) (b * b).

Lemma m2_nonneg a b : 0 <= m2 a b.
Proof. unfold m2, Rmin; destruct (Rle_dec _ _); nra. Qed.

Lemma axis_min2_within lo hi p : lo - p < 0 -> hi - p > 0 -> @axis_min2 ROps lo hi p = 0.
Proof. intros; unfold axis_min2, clamp; cbn. rcmp; try lra; nra. Qed.
Lemma axis_min2_not_within lo hi p : lo <= hi -> ~ (lo - p < 0 /\ hi - p > 0) ->
  @axis_min2 ROps lo hi p = m2 (lo - p) (hi - p).
Proof.
  intros Hord Hn; unfold axis_min2, clamp, m2, Rmin; cbn. rcmp; destruct (Rle_dec _ _); try nra;
  exfalso; apply Hn; lra.
Qed.
Lemma axis_max2_eq lo hi p : @axis_max2 ROps lo hi p = M2 (lo - p) (hi - p).
Proof. unfold axis_max2, M2; cbn. f_equal; ring. Qed.

(* ------------------------------------------------------------ the vertex loop *)
Fixpoint lmin (x : R) (l : list R) := match l with [] => x | y :: r => lmin (Rmin x y) r end.
Fixpoint lmax (x : R) (l : list R) := match l with [] => x | y :: r => lmax (Rmax x y) r end.

Lemma vertex_loop_false l mn mx : @vertex_loop ROps l false mn mx = (lmin mn l, lmax mx l).
Proof. revert mn mx; induction l as [|d l IH]; intros; cbn; [reflexivity|]. apply IH. Qed.
Lemma vertex_loop_true d l : @vertex_loop ROps (d :: l) true 0 0 = (lmin d l, lmax (Rmax 0 d) l).
Proof. cbn. apply vertex_loop_false. Qed.

(* minimum / maximum of the sums over the product of two 2-element sets *)
Lemma min4 u1 u2 v1 v2 :
  Rmin (Rmin (Rmin (u1 + v1) (u2 + v1)) (u1 + v2)) (u2 + v2) = Rmin u1 u2 + Rmin v1 v2.
Proof. split_minmax; lra. Qed.
Lemma max4 u1 u2 v1 v2 : 0 <= u1 -> 0 <= v1 ->
  Rmax (Rmax (Rmax (Rmax 0 (u1 + v1)) (u2 + v1)) (u1 + v2)) (u2 + v2) = Rmax u1 u2 + Rmax v1 v2.
Proof. intros; split_minmax; lra. Qed.

Lemma min8 u1 u2 v1 v2 w1 w2 :
  Rmin (Rmin (Rmin (Rmin (Rmin (Rmin (Rmin (u1 + v1 + w1) (u1 + v1 + w2)) (u1 + v2 + w1)) (u1 + v2 + w2))
    (u2 + v1 + w1)) (u2 + v1 + w2)) (u2 + v2 + w1)) (u2 + v2 + w2)
  = Rmin u1 u2 + Rmin v1 v2 + Rmin w1 w2.
Proof. split_minmax; lra. Qed.
Lemma max8 u1 u2 v1 v2 w1 w2 : 0 <= u1 -> 0 <= v1 -> 0 <= w1 ->
  Rmax (Rmax (Rmax (Rmax (Rmax (Rmax (Rmax (Rmax 0 (u1 + v1 + w1)) (u1 + v1 + w2)) (u1 + v2 + w1)) (u1 + v2 + w2))
    (u2 + v1 + w1)) (u2 + v1 + w2)) (u2 + v2 + w1)) (u2 + v2 + w2)
  = Rmax u1 u2 + Rmax v1 v2 + Rmax w1 w2.
Proof. intros; split_minmax; lra. Qed.

