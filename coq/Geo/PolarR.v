(* Polar coordinates over the reals for the ROps instance: sign of sin/cos on intervals,
   the polar specification of Ratan2 (= math.Atan2), existence of polar coordinates,
   and SawTooth (sdf/utils.go) -- what RotateCopy and Revolve rest on. *)
From Coq Require Import Reals Lra Lia List Bool ZArith.
From Sdfx Require Import Num.Ops Num.RInst Geo.Vec Geo.NormR.
Open Scope R_scope.

(* ------------------------------------------------------------------ signs *)
Lemma cos_neg_arg x : cos (- x) = cos x. Proof. apply cos_neg. Qed.
Lemma sin_neg_arg x : sin (- x) = - sin x. Proof. apply sin_neg. Qed.

Lemma sin_pos_iff x : 0 <= x < 2 * PI -> (0 < sin x <-> 0 < x < PI).
Proof.
  intros [L U]. pose proof PI_RGT_0. split.
  - intros S. destruct (Rle_dec x 0); [assert (x = 0) by lra; subst; rewrite sin_0 in S; lra|].
    destruct (Rlt_dec x PI); [lra|]. assert (sin x <= 0) by (apply sin_le_0; lra). lra.
  - intros [A B]. apply sin_gt_0; assumption.
Qed.
Lemma sin_2PI_shift x : sin (x + 2 * PI) = sin x.
Proof. replace (x + 2 * PI) with (x + 2 * INR 1 * PI) by (simpl; ring). apply sin_period. Qed.
Lemma cos_2PI_shift x : cos (x + 2 * PI) = cos x.
Proof. replace (x + 2 * PI) with (x + 2 * INR 1 * PI) by (simpl; ring). apply cos_period. Qed.
Lemma sin_neg_iff x : - (2 * PI) < x < PI -> (sin x < 0 <-> - PI < x < 0).
Proof.
  intros [L U]. pose proof PI_RGT_0. split.
  - intros S. destruct (Rle_dec 0 x).
    + assert (0 <= sin x) by (apply sin_ge_0; lra). lra.
    + destruct (Rlt_dec (- PI) x); [lra|].
      assert (0 <= sin (x + 2 * PI)) by (apply sin_ge_0; lra). rewrite sin_2PI_shift in *. lra.
  - intros [A B]. assert (0 < sin (- x)) by (apply sin_gt_0; lra). rewrite sin_neg in *. lra.
Qed.

Lemma cos_pos_range x : - PI < x <= PI -> 0 < cos x -> - (PI / 2) < x < PI / 2.
Proof.
  intros [L U] C. pose proof PI_RGT_0. split.
  - destruct (Rlt_dec (- (PI / 2)) x); [assumption|].
    assert (cos (- x) <= 0) by (apply cos_le_0; lra). rewrite cos_neg in *. lra.
  - destruct (Rlt_dec x (PI / 2)); [assumption|]. assert (cos x <= 0) by (apply cos_le_0; lra). lra.
Qed.
Lemma cos_neg_range x : - PI < x <= PI -> cos x < 0 -> PI / 2 < x \/ x < - (PI / 2).
Proof.
  intros [L U] C. pose proof PI_RGT_0.
  destruct (Rlt_dec (PI / 2) x); [now left|]. destruct (Rlt_dec x (- (PI / 2))); [now right|].
  assert (0 <= cos x) by (apply cos_ge_0; lra). lra.
Qed.
Lemma cos_zero_range x : - PI < x <= PI -> cos x = 0 -> x = PI / 2 \/ x = - (PI / 2).
Proof.
  intros [L U] C. pose proof PI_RGT_0.
  destruct (Rlt_dec (PI / 2) x).
  { assert (cos x < 0) by (apply cos_lt_0; lra). lra. }
  destruct (Rlt_dec x (- (PI / 2))).
  { assert (cos (- x) < 0) by (apply cos_lt_0; lra). rewrite cos_neg in *. lra. }
  destruct (Req_dec x (PI / 2)); [now left|]. destruct (Req_dec x (- (PI / 2))); [now right|].
  assert (0 < cos x) by (apply cos_gt_0; lra). lra.
Qed.

Lemma tan_shift_PI x : cos x <> 0 -> tan (x + PI) = tan x.
Proof. intros C. unfold tan. rewrite neg_sin, neg_cos. field. exact C. Qed.

(* ------------------------------------------------------------------ math.Atan2 in polar form *)
Theorem atan2_polar r phi : 0 < r -> - PI < phi <= PI -> Ratan2 (r * sin phi) (r * cos phi) = phi.
Proof.
  intros R [L U]. pose proof PI_RGT_0 as P. unfold Ratan2.
  assert (Q : cos phi <> 0 -> r * sin phi / (r * cos phi) = tan phi) by (intros; unfold tan; field; split; lra).
  destruct (Rlt_dec 0 (r * cos phi)) as [X|X].
  - assert (C : 0 < cos phi) by nra. rewrite Q by lra. apply atan_tan. apply cos_pos_range; [lra | exact C].
  - destruct (Rlt_dec (r * cos phi) 0) as [X'|X'].
    + assert (C : cos phi < 0) by nra. rewrite Q by lra.
      destruct (Rle_dec 0 (r * sin phi)) as [Y|Y].
      * assert (S : 0 <= sin phi) by nra.
        assert (PI / 2 < phi).
        { destruct (cos_neg_range phi (conj L U) C) as [H|H]; [exact H|].
          assert (0 < sin (- phi)) by (apply sin_gt_0; lra). rewrite sin_neg in *. lra. }
        replace (tan phi) with (tan (phi - PI)).
        { rewrite atan_tan by lra. ring. }
        rewrite <- (tan_shift_PI (phi - PI)).
        { f_equal. ring. }
        replace (phi - PI) with (- (PI - phi)) by ring. rewrite cos_neg.
        replace (PI - phi) with (- phi + PI) by ring. rewrite neg_cos, cos_neg. lra.
      * assert (S : sin phi < 0) by nra.
        assert (phi < - (PI / 2)).
        { destruct (cos_neg_range phi (conj L U) C) as [H|H]; [|exact H].
          assert (0 <= sin phi) by (apply sin_ge_0; lra). lra. }
        rewrite <- (tan_shift_PI phi) by lra. rewrite atan_tan by lra. ring.
    + assert (C : cos phi = 0) by nra.
      destruct (cos_zero_range phi (conj L U) C) as [-> | ->].
      * rewrite sin_PI2. destruct (Rlt_dec 0 (r * 1)); lra.
      * rewrite sin_neg, sin_PI2. destruct (Rlt_dec 0 (r * - (1))); [lra|].
        destruct (Rlt_dec (r * - (1)) 0); lra.
Qed.

(* length of a point given in polar form *)
Lemma len2_polar r phi : 0 <= r -> len2 (mkV2 (r * cos phi) (r * sin phi)) = r.
Proof.
  intros R. unfold len2; cbn [vx vy].
  replace (r * cos phi * (r * cos phi) + r * sin phi * (r * sin phi)) with (r * r * (sin phi * sin phi + cos phi * cos phi)) by ring.
  pose proof (sin2_cos2 phi) as H. unfold Rsqr in H. rewrite H, Rmult_1_r. apply sqrt_square, R.
Qed.

(* every point other than the origin has polar coordinates with the angle in (-PI, PI] *)
Theorem polar_exists (p : RV2) : len2 p <> 0 ->
  exists phi, - PI < phi <= PI /\ vx p = len2 p * cos phi /\ vy p = len2 p * sin phi.
Proof.
  intros N. destruct p as [x y]. pose proof (len2_nonneg (mkV2 x y)) as R0. pose proof (len2_sq (mkV2 x y)) as S.
  cbn [vx vy] in *. set (r := len2 (mkV2 x y)) in *. assert (R : 0 < r) by lra.
  pose proof PI_RGT_0 as P.
  set (a := x / r). set (b := y / r).
  assert (AB : a * a + b * b = 1).
  { unfold a, b. replace (x / r * (x / r) + y / r * (y / r)) with ((x * x + y * y) / (r * r)) by (rfield; lra).
    rewrite <- S. rfield. lra. }
  assert (A1 : -1 <= a <= 1) by (split; nra).
  assert (Ex : x = r * a) by (unfold a; rfield; lra). assert (Ey : y = r * b) by (unfold b; rfield; lra).
  assert (SQ : sqrt (1 - a²) = Rabs b).
  { unfold Rsqr. replace (1 - a * a) with (b * b) by lra. apply sqrt_Rsqr_abs. }
  destruct (Rle_dec 0 b) as [B|B].
  - exists (acos a). pose proof (acos_bound a). split; [lra|].
    rewrite cos_acos by exact A1. rewrite sin_acos by exact A1. rewrite SQ, Rabs_pos_eq by exact B. split; assumption.
  - exists (- acos a). assert (-1 < a < 1) by (split; nra). pose proof (acos_bound_lt a H). split; [lra|].
    rewrite cos_neg, sin_neg. rewrite cos_acos by exact A1. rewrite sin_acos by exact A1.
    rewrite SQ, Rabs_left by lra. split; [assumption | lra].
Qed.

(* the angle is what math.Atan2 returns *)
Corollary polar_atan2 (p : RV2) : len2 p <> 0 ->
  let phi := Ratan2 (vy p) (vx p) in
  - PI < phi <= PI /\ vx p = len2 p * cos phi /\ vy p = len2 p * sin phi.
Proof.
  intros N. destruct (polar_exists p N) as (phi & B & Hx & Hy). cbv zeta.
  assert (R : 0 < len2 p) by (pose proof (len2_nonneg p); lra).
  assert (E : Ratan2 (vy p) (vx p) = phi) by (rewrite Hx, Hy at 1; apply atan2_polar; assumption).
  rewrite E. auto.
Qed.

(* ------------------------------------------------------------------ floor *)
Lemma Rfloor_unique x n : IZR n <= x < IZR n + 1 -> Rfloor x = IZR n.
Proof.
  intros [L U]. destruct (Rfloor_spec x) as [L' U']. unfold Rfloor in *. f_equal.
  assert (A : (Int_part x < n + 1)%Z) by (apply lt_IZR; rewrite plus_IZR; lra).
  assert (B : (n < Int_part x + 1)%Z) by (apply lt_IZR; rewrite plus_IZR; lra).
  lia.
Qed.
Lemma Rfloor_add_int x k : Rfloor (x + IZR k) = Rfloor x + IZR k.
Proof.
  destruct (Rfloor_spec x) as [L U]. unfold Rfloor in *. rewrite <- plus_IZR.
  apply Rfloor_unique. rewrite plus_IZR. lra.
Qed.

