(* The vertex solver of DualContouringV2 (render/dc/leastsquares.go): determinant, solve3x3
   (Cramer's rule behind an absolute singularity guard) and leastSquares (normal equations
   AtA x = Atb unless exactly three planes are given).  Written over Ops following the Go
   statements (association of the sums and products included); run at Coq primitive floats
   against the implementation, bit for bit (mismatches_ls); over the reals the guard
   protects Cramer's rule: when it does not fire the result solves the system. *)
From Coq Require Import Reals List ZArith Lra Bool Floats.
From Sdfx Require Import Num.Ops.
From Sdfx Require Import Num.RInst.
From Sdfx Require Import Num.FInst.
From Sdfx Require Import Geo.Vec.
Import OpsNotations ListNotations.
Local Open Scope ops_scope.

Section Model.
  Context {O : Ops}.
  Notation T := (T O).
  Variable inf : T.   (* math.Inf(1) *)

  (* a*e*i + b*f*g + c*d*h - a*f*h - b*d*i - c*e*g *)
  Definition det3 (a b c d e f g h i : T) : T :=
    a * e * i + b * f * g + c * d * h - a * f * h - b * d * i - c * e * g.

  Definition eps12 : T := cst 1 1000000000000.   (* the literal 1e-12 *)

  Definition solve3x3 (r0 r1 r2 : V3 O) (b0 b1 b2 : T) : V3 O :=
    let det := det3 (wx r0) (wy r0) (wz r0) (wx r1) (wy r1) (wz r1) (wx r2) (wy r2) (wz r2) in
    if oabs O det <=? eps12 then mkV3 inf (o0 O) (o0 O)
    else
      v3muls (mkV3 (det3 b0 (wy r0) (wz r0) b1 (wy r1) (wz r1) b2 (wy r2) (wz r2))
                   (det3 (wx r0) b0 (wz r0) (wx r1) b1 (wz r1) (wx r2) b2 (wz r2))
                   (det3 (wx r0) (wy r0) b0 (wx r1) (wy r1) b1 (wx r2) (wy r2) b2))
             (o1 O / det).                        (* .DivScalar(det) = .MulScalar(1 / det) *)

  Definition vget (i : nat) (v : V3 O) : T := match i with 0%nat => wx v | 1%nat => wy v | _ => wz v end.
  (* sum := 0.; for k { sum += A[k].Get(i) * A[k].Get(j) } *)
  Definition ata (A : list (V3 O)) (i j : nat) : T :=
    fold_left (fun acc v => acc + vget i v * vget j v) A (o0 O).
  Definition atb (A : list (V3 O)) (b : list T) (i : nat) : T :=
    fold_left (fun acc vb => acc + vget i (fst vb) * snd vb) (combine A b) (o0 O).

  Definition least_squares (A : list (V3 O)) (b : list T) : V3 O :=
    match A, b with
    | [r0; r1; r2], [b0; b1; b2] => solve3x3 r0 r1 r2 b0 b1 b2
    | _, _ =>
        let row i := mkV3 (ata A i 0) (ata A i 1) (ata A i 2) in
        solve3x3 (row 0%nat) (row 1%nat) (row 2%nat) (atb A b 0) (atb A b 1) (atb A b 2)
    end.
End Model.

(* ---- over the reals: when the guard does not fire the returned point solves the 3x3 system *)
Open Scope R_scope.
Lemma solve3x3_solves (inf : R) (r0 r1 r2 : V3 ROps) (b0 b1 b2 : R) :
  let det := @det3 ROps (wx r0) (wy r0) (wz r0) (wx r1) (wy r1) (wz r1) (wx r2) (wy r2) (wz r2) in
  1 / 1000000000000 < Rabs det ->
  let x := @solve3x3 ROps inf r0 r1 r2 b0 b1 b2 in
  wx r0 * wx x + wy r0 * wy x + wz r0 * wz x = b0 /\
  wx r1 * wx x + wy r1 * wy x + wz r1 * wz x = b1 /\
  wx r2 * wx x + wy r2 * wy x + wz r2 * wz x = b2.
Proof.
  destruct r0 as [a b c], r1 as [d e f], r2 as [g h i]. cbv zeta. intros Hd.
  unfold solve3x3, eps12, cst, det3 in *. cbn [wx wy wz] in *.
  change (oleb ROps) with Rleb. change (oabs ROps) with Rabs. change (ofZ ROps) with IZR.
  change (oadd ROps) with Rplus in *. change (osub ROps) with Rminus in *. change (omul ROps) with Rmult in *.
  change (odiv ROps) with Rdiv. change (o1 ROps) with 1.
  set (det := a * e * i + b * f * g + c * d * h - a * f * h - b * d * i - c * e * g) in *.
  destruct (Rleb (Rabs det) (1 / 1000000000000)) eqn:E; [apply Rleb_true in E; lra|]. clear E.
  assert (Hne : det <> 0) by (intro Z; rewrite Z, Rabs_R0 in Hd; lra).
  cbn [v3muls wx wy wz]. change (omul ROps) with Rmult. subst det.
  repeat split; field; exact Hne.
Qed.

(* ---- correspondence at primitive floats *)
Definition f3 := (float * float * float)%type.
Definition fv (p : f3) : V3 FOps := let '(x, y, z) := p in mkV3 x y z.
(* id, plane normals A, plane offsets b, result of the implementation *)
Definition case_ls := (N * list f3 * list float * f3)%type.
Definition ok_ls (c : case_ls) : bool :=
  let '(id, A, b, g) := c in
  let r := @least_squares FOps infinity (map fv A) b in
  let '(gx, gy, gz) := g in
  fsame (wx r) gx && fsame (wy r) gy && fsame (wz r) gz.
Definition mismatches_ls (cs : list case_ls) : list N :=
  map (fun c : case_ls => let '(id, _, _, _) := c in id) (filter (fun c => negb (ok_ls c)) cs).
