(* Proofs over the reals about Geo/Box.v: the point/box squared-distance
   intervals of Box2/Box3.MinMaxDist2 are exact. *)
From Coq Require Import Reals Lra Lia List Bool ZArith.
From Sdfx Require Import Num.Ops Num.RInst Geo.Vec Geo.Box Geo.MinMaxR.
Import ListNotations.
Open Scope R_scope.

(* ------------------------------------------------------------ Box2 *)
Definition ordered2 (b : Box2 ROps) : Prop :=
  vx (b2min b) <= vx (b2max b) /\ vy (b2min b) <= vy (b2max b).
Definition in_box2 (b : Box2 ROps) (q : V2 ROps) : Prop :=
  vx (b2min b) <= vx q <= vx (b2max b) /\ vy (b2min b) <= vy q <= vy (b2max b).
Definition dist2_2 (p q : V2 ROps) : R := (vx p - vx q) * (vx p - vx q) + (vy p - vy q) * (vy p - vy q).

Ltac within_cases a b Hw :=
  destruct (Rltb a 0) eqn:?Ca; [apply Rltb_true in Ca | apply Rltb_false in Ca];
  (destruct (Rltb 0 b) eqn:?Cb; [apply Rltb_true in Cb | apply Rltb_false in Cb]); cbn [andb].

Theorem box2_minmax_exact b p : ordered2 b -> box2_minmax b p = spec2_minmax b p.
Proof.
  destruct b as [[lx ly] [hx hy]], p as [px py]; unfold ordered2; cbn; intros [Hx Hy].
  unfold spec2_minmax. cbn [b2min b2max vx vy fst snd].
  rewrite !axis_max2_eq. unfold M2. change (oadd ROps) with Rplus.
  replace (lx + - px) with (lx - px) by ring. replace (hx + - px) with (hx - px) by ring.
  replace (ly + - py) with (ly - py) by ring. replace (hy + - py) with (hy - py) by ring.
  set (ax := lx - px) in *. set (bx := hx - px) in *. set (ay := ly - py) in *. set (by_ := hy - py) in *.
  assert (Emax : Rmax (Rmax (Rmax (Rmax 0 (ax * ax + ay * ay)) (bx * bx + ay * ay)) (ax * ax + by_ * by_)) (bx * bx + by_ * by_)
                 = Rmax (ax * ax) (bx * bx) + Rmax (ay * ay) (by_ * by_)) by (apply max4; nra).
  rewrite Emax.
  assert (Emin : Rmin (Rmin (Rmin (ax * ax + ay * ay) (bx * bx + ay * ay)) (ax * ax + by_ * by_)) (bx * bx + by_ * by_)
                 = m2 ax bx + m2 ay by_) by (apply min4).
  rewrite Emin. rewrite !sq_abs_min. fold (m2 ay by_) (m2 ax bx).
  pose proof (m2_nonneg ax bx). pose proof (m2_nonneg ay by_).
  change (oltb ROps) with Rltb. change (o0 ROps) with 0.
  destruct (Rltb ax 0) eqn:C1; [apply Rltb_true in C1 | apply Rltb_false in C1];
  (destruct (Rltb 0 bx) eqn:C2; [apply Rltb_true in C2 | apply Rltb_false in C2]);
  (destruct (Rltb ay 0) eqn:C3; [apply Rltb_true in C3 | apply Rltb_false in C3]);
  (destruct (Rltb 0 by_) eqn:C4; [apply Rltb_true in C4 | apply Rltb_false in C4]); cbn [andb];
  repeat match goal with
  | |- context [axis_min2 lx hx px] =>
      first [ rewrite (axis_min2_within lx hx px) by (subst ax bx; lra)
            | rewrite (axis_min2_not_within lx hx px) by (subst ax bx; lra) ]
  | |- context [axis_min2 ly hy py] =>
      first [ rewrite (axis_min2_within ly hy py) by (subst ay by_; lra)
            | rewrite (axis_min2_not_within ly hy py) by (subst ay by_; lra) ]
  end; fold ax bx ay by_; (apply f_equal2; [|reflexivity]); unfold Rmin; try destruct (Rle_dec _ _); lra.
Qed.

(* ------------------------------------------------------------ Box3 *)
Definition ordered3 (b : Box3 ROps) : Prop :=
  wx (b3min b) <= wx (b3max b) /\ wy (b3min b) <= wy (b3max b) /\ wz (b3min b) <= wz (b3max b).
Definition in_box3 (b : Box3 ROps) (q : V3 ROps) : Prop :=
  wx (b3min b) <= wx q <= wx (b3max b) /\ wy (b3min b) <= wy q <= wy (b3max b) /\
  wz (b3min b) <= wz q <= wz (b3max b).
Definition dist2_3 (p q : V3 ROps) : R :=
  (wx p - wx q) * (wx p - wx q) + (wy p - wy q) * (wy p - wy q) + (wz p - wz q) * (wz p - wz q).

Theorem box3_minmax_exact b p : ordered3 b -> box3_minmax b p = spec3_minmax b p.
Proof.
  destruct b as [[lx ly lz] [hx hy hz]], p as [px py pz]; unfold ordered3; cbn; intros (Hx & Hy & Hz).
  unfold spec3_minmax. cbn [b3min b3max wx wy wz fst snd].
  rewrite !axis_max2_eq. unfold M2. change (oadd ROps) with Rplus.
  replace (lx + - px) with (lx - px) by ring. replace (hx + - px) with (hx - px) by ring.
  replace (ly + - py) with (ly - py) by ring. replace (hy + - py) with (hy - py) by ring.
  replace (lz + - pz) with (lz - pz) by ring. replace (hz + - pz) with (hz - pz) by ring.
  set (ax := lx - px) in *. set (bx := hx - px) in *. set (ay := ly - py) in *. set (by_ := hy - py) in *.
  set (az := lz - pz) in *. set (bz := hz - pz) in *.
  rewrite (max8 (ax * ax) (bx * bx) (ay * ay) (by_ * by_) (az * az) (bz * bz)) by nra.
  rewrite (min8 (ax * ax) (bx * bx) (ay * ay) (by_ * by_) (az * az) (bz * bz)).
  rewrite !sq_abs_min. fold (m2 ax bx) (m2 ay by_) (m2 az bz).
  pose proof (m2_nonneg ax bx). pose proof (m2_nonneg ay by_). pose proof (m2_nonneg az bz).
  change (oltb ROps) with Rltb. change (o0 ROps) with 0.
  destruct (Rltb ax 0) eqn:C1; [apply Rltb_true in C1 | apply Rltb_false in C1];
  (destruct (Rltb 0 bx) eqn:C2; [apply Rltb_true in C2 | apply Rltb_false in C2]);
  (destruct (Rltb ay 0) eqn:C3; [apply Rltb_true in C3 | apply Rltb_false in C3]);
  (destruct (Rltb 0 by_) eqn:C4; [apply Rltb_true in C4 | apply Rltb_false in C4]);
  (destruct (Rltb az 0) eqn:C5; [apply Rltb_true in C5 | apply Rltb_false in C5]);
  (destruct (Rltb 0 bz) eqn:C6; [apply Rltb_true in C6 | apply Rltb_false in C6]); cbn [andb];
  repeat match goal with
  | |- context [axis_min2 lx hx px] =>
      first [ rewrite (axis_min2_within lx hx px) by (subst ax bx; lra)
            | rewrite (axis_min2_not_within lx hx px) by (subst ax bx; lra) ]
  | |- context [axis_min2 ly hy py] =>
      first [ rewrite (axis_min2_within ly hy py) by (subst ay by_; lra)
            | rewrite (axis_min2_not_within ly hy py) by (subst ay by_; lra) ]
  | |- context [axis_min2 lz hz pz] =>
      first [ rewrite (axis_min2_within lz hz pz) by (subst az bz; lra)
            | rewrite (axis_min2_not_within lz hz pz) by (subst az bz; lra) ]
  end; fold ax bx ay by_ az bz; (apply f_equal2; [|reflexivity]);
  generalize dependent (m2 ax bx); generalize dependent (m2 ay by_); generalize dependent (m2 az bz);
  intros; split_minmax; lra.
Qed.

(* ------------------------------------------------------------ meaning of the specification *)
Lemma axis_bounds lo hi p q : lo <= q <= hi ->
  @axis_min2 ROps lo hi p <= (p - q) * (p - q) <= @axis_max2 ROps lo hi p.
Proof.
  intros Hq. unfold axis_min2, axis_max2, clamp; cbn. split.
  - rcmp.
    + assert (0 <= (q - lo) * (q + lo - 2 * p)) by (apply Rmult_le_pos; lra). nra.
    + assert (0 <= (hi - q) * (2 * p - hi - q)) by (apply Rmult_le_pos; lra). nra.
    + replace ((p - p) * (p - p)) with 0 by ring. pose proof (Rle_0_sqr (p - q)) as S. unfold Rsqr in S. lra.
  - assert (Hc : (p - q) * (p - q) <= (p - hi) * (p - hi) \/ (p - q) * (p - q) <= (p - lo) * (p - lo)).
    { destruct (Rle_dec p q); [left | right].
      - assert (0 <= (hi - q) * (hi + q - 2 * p)) by (apply Rmult_le_pos; lra). nra.
      - assert (0 <= (q - lo) * (2 * p - q - lo)) by (apply Rmult_le_pos; lra). nra. }
    unfold Rmax; destruct (Rle_dec _ _); destruct Hc; lra.
Qed.
Lemma axis_min_attained lo hi p : lo <= hi ->
  exists q, lo <= q <= hi /\ (p - q) * (p - q) = @axis_min2 ROps lo hi p.
Proof.
  intros H. exists (@clamp ROps p lo hi). unfold axis_min2, clamp; cbn. rcmp; split; try reflexivity; lra.
Qed.
Lemma axis_max_attained lo hi p : lo <= hi ->
  exists q, (q = lo \/ q = hi) /\ (p - q) * (p - q) = @axis_max2 ROps lo hi p.
Proof.
  intros H. unfold axis_max2; cbn. unfold Rmax. destruct (Rle_dec _ _); [exists hi | exists lo]; auto.
Qed.

Theorem spec2_is_distance_interval b p : ordered2 b ->
  (forall q, in_box2 b q -> fst (spec2_minmax b p) <= dist2_2 p q <= snd (spec2_minmax b p)) /\
  (exists q, in_box2 b q /\ dist2_2 p q = fst (spec2_minmax b p)) /\
  (exists q, in_box2 b q /\ dist2_2 p q = snd (spec2_minmax b p)).
Proof.
  destruct b as [[lx ly] [hx hy]], p as [px py]. unfold ordered2, in_box2, dist2_2, spec2_minmax; cbn [b2min b2max vx vy fst snd].
  intros [Hx Hy]. change (oadd ROps) with Rplus. split; [|split].
  - intros [qx qy]; cbn [vx vy]. intros [H1 H2].
    pose proof (axis_bounds lx hx px qx H1). pose proof (axis_bounds ly hy py qy H2). lra.
  - destruct (axis_min_attained lx hx px Hx) as (qx & Hqx & Ex).
    destruct (axis_min_attained ly hy py Hy) as (qy & Hqy & Ey).
    exists (mkV2 qx qy); cbn [vx vy]. split; [tauto | lra].
  - destruct (axis_max_attained lx hx px Hx) as (qx & Hqx & Ex).
    destruct (axis_max_attained ly hy py Hy) as (qy & Hqy & Ey).
    exists (mkV2 qx qy); cbn [vx vy]. split; [|lra].
    split; [destruct Hqx; lra | destruct Hqy; lra].
Qed.

Theorem spec3_is_distance_interval b p : ordered3 b ->
  (forall q, in_box3 b q -> fst (spec3_minmax b p) <= dist2_3 p q <= snd (spec3_minmax b p)) /\
  (exists q, in_box3 b q /\ dist2_3 p q = fst (spec3_minmax b p)) /\
  (exists q, in_box3 b q /\ dist2_3 p q = snd (spec3_minmax b p)).
Proof.
  destruct b as [[lx ly lz] [hx hy hz]], p as [px py pz].
  unfold ordered3, in_box3, dist2_3, spec3_minmax; cbn [b3min b3max wx wy wz fst snd].
  intros (Hx & Hy & Hz). change (oadd ROps) with Rplus. split; [|split].
  - intros [qx qy qz]; cbn [wx wy wz]. intros (H1 & H2 & H3).
    pose proof (axis_bounds lx hx px qx H1). pose proof (axis_bounds ly hy py qy H2).
    pose proof (axis_bounds lz hz pz qz H3). lra.
  - destruct (axis_min_attained lx hx px Hx) as (qx & Hqx & Ex).
    destruct (axis_min_attained ly hy py Hy) as (qy & Hqy & Ey).
    destruct (axis_min_attained lz hz pz Hz) as (qz & Hqz & Ez).
    exists (mkV3 qx qy qz); cbn [wx wy wz]. split; [tauto | lra].
  - destruct (axis_max_attained lx hx px Hx) as (qx & Hqx & Ex).
    destruct (axis_max_attained ly hy py Hy) as (qy & Hqy & Ey).
    destruct (axis_max_attained lz hz pz Hz) as (qz & Hqz & Ez).
    exists (mkV3 qx qy qz); cbn [wx wy wz]. split; [|lra].
    split; [destruct Hqx; lra | split; [destruct Hqy; lra | destruct Hqz; lra]].
Qed.

(* ------------------------------------------------------------ Interval.Overlap *)
Theorem overlap_iff (a b : Interval ROps) : fst a <= snd a -> fst b <= snd b ->
  (iv_overlap a b = true <-> exists x, fst a <= x <= snd a /\ fst b <= x <= snd b).
Proof.
  destruct a as [a0 a1], b as [b0 b1]; cbn [fst snd]; intros Ha Hb. unfold iv_overlap; cbn.
  rcmp; cbn [andb]; split; intros H; try discriminate; try reflexivity.
  - exists (Rmax a0 b0). unfold Rmax; destruct (Rle_dec _ _); lra.
  - destruct H as (x & ? & ?); lra.
  - destruct H as (x & ? & ?); lra.
  - destruct H as (x & ? & ?); lra.
Qed.

(* membership in a box is decidable *)
Lemma classic_in_box2 b p : in_box2 b p \/ ~ in_box2 b p.
Proof.
  unfold in_box2.
  destruct (Rle_dec (vx (b2min b)) (vx p)), (Rle_dec (vx p) (vx (b2max b))),
           (Rle_dec (vy (b2min b)) (vy p)), (Rle_dec (vy p) (vy (b2max b))); first [left; lra | right; lra].
Qed.
Lemma classic_in_box3 b p : in_box3 b p \/ ~ in_box3 b p.
Proof.
  unfold in_box3.
  destruct (Rle_dec (wx (b3min b)) (wx p)), (Rle_dec (wx p) (wx (b3max b))),
           (Rle_dec (wy (b3min b)) (wy p)), (Rle_dec (wy p) (wy (b3max b))),
           (Rle_dec (wz (b3min b)) (wz p)), (Rle_dec (wz p) (wz (b3max b))); first [left; lra | right; lra].
Qed.
